"""C17 — mappings are finite maps under any consistent hash (narrowed to the bucket-table kernel).
K-unit slice: `KeyLocation`, `locate`, `get`, `try_put_located`, `put_located`, `put`, `try_put` of src/builtin/mapping.rs are
copied verbatim on every run; the user's hash and equality are symbolic tables (any hash that agrees with the equality)."""
import os
import re

from . import core, kunit

OUT = [
    "the mapping natives themselves (set, update, get, pop, discard, counter ...): they receive the mapping as Rc<dyn XNativeValue>, "
    "which CBMC does not finish (DESIGN 9.2); decided is the kernel every one of them goes through (locate + put)",
    "removal (pop/discard rebuild the table inside the native closure), bulk update, set.rs (same design, separate code), "
    "set algebra and helpers written in the language",
    "histories longer than 2 (quick) / 3 (thorough) puts, universes of more than 3 keys; std HashMap is an association-list model",
]


def run(chk):
    crate = kunit.prepare(chk)
    chk.assumptions += kunit.ASSUMPTIONS
    chk.assumptions.append("slice: enum KeyLocation and six functions of `impl XMapping` are copied verbatim from src/builtin/mapping.rs into "
                           "the shim /verif/kani/unit/slices/mapping_kernel.rs; the user hash/equality are played by "
                           "RuntimeScope::eval_func_with_values of the shim from symbolic class/hash tables; std::collections::HashMap is a "
                           "3-slot association list defined in the shim; ManagedXError::new never refuses (no size limit)")
    if not crate.build():
        raise core.Inconclusive("K-unit build failed:\n" + crate.build_log[-3000:])
    src = open(os.path.join(core.VERIF, "kani/unit/src/h/c17.rs")).read()
    names = re.findall(r"#\[kani::proof\](?:\s*#\[[^\]]*\])*\s*fn (c17_\w*)", src) + re.findall(r"put_history!\((c17_\w*),", src)
    if chk.tier == "quick":
        names = [n for n in names if not n.endswith("_t")]
    if chk.only:
        names = [n for n in names if any(o in n for o in chk.only)]
    else:
        names = [n for n in names if not n.endswith("_x")]
    tmo = 1200 if chk.tier == "quick" else 2400
    sl = crate.slices.get("mapping_kernel", {})
    specs = [dict(name="h::c17::" + n, timeout=tmo, mem_gb=20 if chk.tier == "quick" else 30, info=dict(
        functions_encoded="%s slice: KeyLocation, locate, get, try_put_located, put_located, put, try_put (sha256 %s, %s lines)" % (
            sl.get("source"), sl.get("sha256"), sl.get("lines")), timeout=tmo,
        bounds="universe of 3 keys, symbolic equality classes, symbolic i64 hash per class, symbolic u8 values; history length per harness name; "
               "failure injected at a symbolic call of the user functions")) for n in names]
    obs = core.run_harnesses(chk, crate, specs, logdir=os.path.join(core.CACHE, "logs", "C17"))
    core.triage(chk, crate, obs, {})
    return chk.finish(out_of_claim=OUT)
