"""C16 — generators denote fixed lazy streams (narrowed).  K-crate: merging of take/skip into one Slice keeps the denoted
window (XGenerator::slice on symbolic windows).  K-unit slice: the iterator arm of Slice yields exactly that window, twice."""
from . import c08, kcrate

OUT = [
    "adaptors whose callee is a user function (map, filter, aggregate, take_while...), chain/zip/product/windows/group, prelude adaptors",
    "the take/skip natives themselves and consumption through the public iter/to_array path (generators behind Rc<dyn ..> are not "
    "explorable by CBMC): decided are the two pieces they are made of, the merge arithmetic and the iterator arm",
    "windows beyond 1000 (merge) / inner streams longer than 6 (iterator arm); laziness on infinite sources",
]


def run(chk):
    c08.run_slices(chk, ["c16_"], module="c16")
    return kcrate.run(chk, [("builtin__generators.rs", "c16_")], out=OUT, timeouts=(600, 2400))
