"""C16 — generators denote fixed lazy streams (narrowed).  K-crate: take/skip pipelines through the real natives and the real iterator."""
from . import kcrate

OUT = [
    "adaptors whose callee is a user function (map, filter, aggregate, take_while...), chain/zip/product/windows/group, prelude adaptors",
    "pipelines longer than 3 steps, sources longer than 5 elements, laziness on infinite sources",
]


def run(chk):
    return kcrate.run(chk, [("builtin__generators.rs", "c16_")], out=OUT, timeouts=(600, 2400))
