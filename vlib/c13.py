"""C13 probe"""
from . import kcrate


def run(chk):
    return kcrate.run(chk, [("builtin__int.rs", "c14_p7")], out=[])
