"""C13 — floats are always finite (narrowed).  K-crate: the checked constructor for all 2^64 bit patterns, float natives
(add, sub, mul, div, neg) through their real registration, int.to_float with num-bigint's to_f64 stubbed by contract.
K-unit slice: float literals."""
import os

from . import core, kcrate, kunit

OUT = [
    "transcendental functions (sin, cos, exp, ln, gamma, erf, pow, sqrt...), statrs distributions and JSON numbers: CBMC has no model "
    "of libm/statrs; they all return through the checked constructor, which is decided",
    "float mod (frem) and is_close; prelude helpers written in the xray language",
    "std's float parser is stubbed in the literal harness (any float or Err): the `1e999` class is confirmed by replay on the real compiler",
]


def run(chk):
    # float literals (slice of parser.rs)
    crate = kunit.prepare(chk)
    chk.assumptions += kunit.ASSUMPTIONS
    if not crate.build():
        raise core.Inconclusive("K-unit build failed:\n" + crate.build_log[-3000:])
    tmo = 300 if chk.tier == "quick" else 1800
    sl = crate.slices.get("number_any", {})

    def replay(trace, labels):
        src = "let x = 1e999;"
        spec = dict(source=src, bindings=["x"])

        def check(got):
            v = got.get("values", {}).get("x", {})
            if got.get("panic"):
                return "compiler panicked on `%s`" % src
            if v.get("finite") is False:
                return "float literal `1e999` is %s" % v
            return None
        return dict(spec=spec, check=check)
    if not chk.only or any("literal" in o for o in chk.only):
        obs = core.run_harnesses(chk, crate, [dict(name="h::c12::c13_float_literal", timeout=tmo, info=dict(
            functions_encoded="src/parser.rs `Rule::NUMBER_ANY` arm (slice sha256 %s)" % sl.get("sha256"), timeout=tmo,
            bounds="literals <digit>e<3 digits>; float parser stubbed"))], logdir=os.path.join(core.CACHE, "logs", "C13"))
        # known finding (1e999 -> inf): the label is confirmed on the real compiler before it is printed
        nat_problem = replay({}, [])["check"](core.Native.get().run(dict(source="let x = 1e999;", bindings=["x"])))
        for ob in obs:
            if ob.verdict == "fail" and not nat_problem:
                ob.verdict = "inconclusive"
                ob.detail = "stub-dependent witness does not reproduce on the real compiler (1e999 is handled)"
        core.triage(chk, crate, obs, {"c13_float_literal": replay},
                    excl_factory=lambda cfgs: kunit.prepare(chk, rustflags=" ".join("--cfg " + c for c in cfgs)))
    return kcrate.run(chk, [("xvalue.rs", "c13_"), ("builtin__floats.rs", "c13_"), ("builtin__int.rs", "c13_")], out=OUT)
