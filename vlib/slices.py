"""source slices: a brace-matched block of /repo's source is copied verbatim into a shim environment of the K-unit crate"""
import os
import re

from . import core

SLICE_DIR = os.path.join(core.VERIF, "kani", "unit", "slices")


def block_after(src, anchor_rx, which=0):
    """text between the `{` that follows the `which`-th match of anchor_rx and its matching `}` (exclusive)"""
    ms = list(re.finditer(anchor_rx, src))
    if len(ms) <= which:
        raise core.Inconclusive("slice anchor %r not found" % anchor_rx)
    m = ms[which]
    i = src.index("{", m.end() - 1) if src[m.end() - 1] != "{" else m.end() - 1
    depth, j = 0, i
    in_str = False
    while True:
        c = src[j]
        if in_str:
            if c == "\\":
                j += 1
            elif c == '"':
                in_str = False
        else:
            if c == '"':
                in_str = True
            elif c == "/" and src[j + 1] == "/":
                j = src.index("\n", j)
                continue
            elif c == "'" and re.match(r"'(\\.|[^\\'])'", src[j:j + 4]):
                j += len(re.match(r"'(\\.|[^\\'])'", src[j:j + 4]).group(0)) - 1
            elif c == "{":
                depth += 1
            elif c == "}":
                depth -= 1
                if depth == 0:
                    return src[i + 1:j]
        j += 1


def stmt_from(src, anchor_rx, which=0):
    """the statement that starts at the match of anchor_rx and ends with the brace-matched block that follows it"""
    ms = list(re.finditer(anchor_rx, src))
    if len(ms) <= which:
        raise core.Inconclusive("slice anchor %r not found" % anchor_rx)
    m = ms[which]
    body = block_after(src[m.start():], r"\{", 0)
    head = src[m.start():src.index("{", m.start())]
    return head + "{" + body + "}"


def tail_from(src, anchor_rx):
    """from the match of anchor_rx to the end of the (function) text, without its closing brace"""
    m = re.search(anchor_rx, src)
    if not m:
        raise core.Inconclusive("slice anchor %r not found" % anchor_rx)
    end = src.rstrip().rfind("}")
    return src[m.start():end]


def expr_group(src, rx, which=0):
    ms = list(re.finditer(rx, src, re.S))
    if len(ms) <= which:
        raise core.Inconclusive("slice pattern %r not found" % rx)
    return ms[which].group(1)


def function_text(src, name):
    m = re.search(r"fn %s\b" % name, src)
    if not m:
        raise core.Inconclusive("function %s not found" % name)
    return src[m.start():m.start() + len("fn %s" % name)] + src[m.end():][:0] + src[m.end():src.index("{", m.end())] + "{" + block_after(src[m.start():], r"\{", 0) + "}"


SLICES = {
    # name: [(marker, source file, mode, pattern, scope function or None)]
    "number_any": [("/*SLICE*/", "src/parser.rs", "block", r"Rule::NUMBER_ANY\s*=>\s*\{", None)],
    "depth_step": [
        ("/*SLICE:height*/", "src/runtime_scope.rs", "expr", r"height:\s*(.*?),\n", "from_template"),
        ("/*SLICE:check*/", "src/runtime_scope.rs", "stmt", r"if rt\s*\.limits\s*\.depth_limit", "from_template"),
    ],
    "find_run": [("/*SLICE*/", "src/util/trysort.rs", "stmt", r"if start > 0 \{", "try_sort")],
    "gen_slice_arm": [("/*SLICE*/", "src/builtin/generators.rs", "block", r"Self::Slice\(gen, start, end\)\s*=>\s*either_g\(\{", "_iter")],
    "take_while_loop": [("/*SLICE*/", "src/builtin/sequence.rs", "stmt", r"for \(\(i, item\), search\) in search\(", "add_sequence_take_while")],
    "overload_rank": [("/*SLICE*/", "src/compilation_scope.rs", "tail", r"let mut exact_matches = vec!\[\];", "resolve_overload")],
    "mapping_kernel": [
        ("/*SLICE:keyloc*/", "src/builtin/mapping.rs", "stmt", r"#\[derive\(Debug\)\]\s*enum KeyLocation", None),
        ("/*SLICE:locate*/", "src/builtin/mapping.rs", "fn", "locate", None),
        ("/*SLICE:get*/", "src/builtin/mapping.rs", "fn", "get", None),
        ("/*SLICE:try_put_located*/", "src/builtin/mapping.rs", "fn", "try_put_located", None),
        ("/*SLICE:put_located*/", "src/builtin/mapping.rs", "fn", "put_located", None),
        ("/*SLICE:put*/", "src/builtin/mapping.rs", "fn", "put", None),
        ("/*SLICE:try_put*/", "src/builtin/mapping.rs", "fn", "try_put", None),
        ("/*SLICE:new*/", "src/builtin/mapping.rs", "fn", "new", None),
        ("/*SLICE:pop_rebuild*/", "src/builtin/mapping.rs", "expr", r"(let mut new_dict = .*?\.collect\(\)\);)", "add_mapping_pop"),
        ("/*SLICE:pop_new*/", "src/builtin/mapping.rs", "expr", r"manage_native!\(\s*(XMapping::new\(mapping\.hash_func\.clone\(\), mapping\.eq_func\.clone\(\), new_dict, [^)]*\))", "add_mapping_pop"),
    ],
    "trampoline": [
        ("/*SLICE*/", "src/runtime_scope.rs", "block", r"XFunction::UserFunction\s*\{\s*template,\s*output\s*\}\s*=>\s*\{", "eval_func_with_values"),
    ],
}


def generate(real_dir):
    """writes real/slice_<name>.rs for every slice template and real/slices_mod.rs; returns {name: info}"""
    import hashlib
    info = {}
    mods = []
    for name, parts in SLICES.items():
        tpl = open(os.path.join(SLICE_DIR, name + ".rs")).read()
        h = hashlib.sha256()
        nlines = 0
        for marker, rel, mode, rx, scope in parts:
            src = open(os.path.join(core.REPO, rel)).read()
            if scope:
                src = function_text(src, scope)
            body = function_text(src, rx) if mode == "fn" else block_after(src, rx) if mode == "block" else stmt_from(src, rx) if mode == "stmt" else tail_from(src, rx) if mode == "tail" else expr_group(src, rx)
            if marker not in tpl:
                raise core.Inconclusive("slice template %s has no marker %s" % (name, marker))
            tpl = tpl.replace(marker, body)
            h.update(body.encode())
            nlines += body.count("\n") + 1
        open(os.path.join(real_dir, "slice_%s.rs" % name), "w").write(tpl)
        mods.append('#[path = "slice_%s.rs"]\npub mod %s;\n' % (name, name))
        info[name] = dict(source=sorted({p[1] for p in parts}), sha256=h.hexdigest()[:16], lines=nlines)
    open(os.path.join(real_dir, "slices_mod.rs"), "w").write("".join(mods))
    return info
