"""source slices: a brace-matched block of /repo's source is copied verbatim into a shim environment of the K-unit crate"""
import os
import re

from . import core

SLICE_DIR = os.path.join(core.VERIF, "kani", "unit", "slices")


def block_after(src, anchor_rx, which=0):
    """text between the `{` that follows the `which`-th match of anchor_rx and its matching `}` (exclusive)"""
    ms = list(re.finditer(anchor_rx, src))
    if len(ms) <= which:
        raise core.Inconclusive("slice anchor %r not found" % anchor_rx)
    m = ms[which]
    i = src.index("{", m.end() - 1) if src[m.end() - 1] != "{" else m.end() - 1
    depth, j = 0, i
    in_str = False
    while True:
        c = src[j]
        if in_str:
            if c == "\\":
                j += 1
            elif c == '"':
                in_str = False
        else:
            if c == '"':
                in_str = True
            elif c == "/" and src[j + 1] == "/":
                j = src.index("\n", j)
                continue
            elif c == "'" and re.match(r"'(\\.|[^\\'])'", src[j:j + 4]):
                j += len(re.match(r"'(\\.|[^\\'])'", src[j:j + 4]).group(0)) - 1
            elif c == "{":
                depth += 1
            elif c == "}":
                depth -= 1
                if depth == 0:
                    return src[i + 1:j]
        j += 1


SLICES = {
    # name: (source file, anchor regex, occurrence)
    "number_any": ("src/parser.rs", r"Rule::NUMBER_ANY\s*=>\s*\{", 0),
}


def generate(real_dir):
    """writes real/slice_<name>.rs for every slice template and real/slices_mod.rs; returns {name: sha of slice text}"""
    import hashlib
    info = {}
    mods = []
    for name, (rel, rx, which) in SLICES.items():
        src = open(os.path.join(core.REPO, rel)).read()
        body = block_after(src, rx, which)
        tpl = open(os.path.join(SLICE_DIR, name + ".rs")).read()
        if "/*SLICE*/" not in tpl:
            raise core.Inconclusive("slice template %s has no marker" % name)
        open(os.path.join(real_dir, "slice_%s.rs" % name), "w").write(tpl.replace("/*SLICE*/", body))
        mods.append('#[path = "slice_%s.rs"]\npub mod %s;\n' % (name, name))
        info[name] = dict(source=rel, anchor=rx, sha256=hashlib.sha256(body.encode()).hexdigest()[:16], lines=body.count("\n") + 1)
    open(os.path.join(real_dir, "slices_mod.rs"), "w").write("".join(mods))
    return info
