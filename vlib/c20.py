"""C20 — documented conversions are mutually inverse (narrowed): calendar date <-> Julian day, weekday, datetime <-> Unix
seconds (integral seconds), decided by SMT over the prelude's own source text."""
import random
import re

from . import core, smt, xsmt_common as xc
from .xsmt_common import xr2smt

OUT = [
    "JSON serialise/deserialise (serde + string escapes) and int<->text in base 2..36 (num-bigint text conversion is not modelled)",
    "the float seconds field of Datetime and non-integral Unix times; Julian day numbers < 0 (JDN is defined from 0) and > the stated bound",
    "fraction arithmetic (add/sub/mul/div/pow) and fractions beyond |n|, |d| <= 8 (14 thorough): only the normalising constructor is decided; "
    "its float divisions are modelled as exact integer divisions (valid below 2^53)",
    "chr/code_point inverse (decided in C18's natives)",
]


def leap(enc, y, pc="true"):
    r4 = enc.divmod(y, 4, "floor", pc)[1]
    r100 = enc.divmod(y, 100, "floor", pc)[1]
    r400 = enc.divmod(y, 400, "floor", pc)[1]
    return "(and (= %s 0) (or (not (= %s 0)) (= %s 0)))" % (r4, r100, r400)


def days_in_month(enc, y, m):
    lp = leap(enc, y)
    return ("(ite (or (= {m} 4) (= {m} 6) (= {m} 9) (= {m} 11)) 30 (ite (= {m} 2) (ite {lp} 29 28) 31))").format(m=m, lp=lp)


def valid_date(enc, d):
    y, m, dd = (xr2smt.Enc.t(d[k]) for k in ("year", "month", "day"))
    return "(and (>= {m} 1) (<= {m} 12) (>= {d} 1) (<= {d} {dim}))".format(m=m, d=dd, dim=days_in_month(enc, y, m))


def fresh_enc(fns, structs, src):
    enc = xr2smt.Enc(fns, structs)
    m = re.search(r"(?m)^let __std_unix_epoch = (.*);", src)
    if m:
        e = xr2smt.P(xr2smt.lex(m.group(1))).parse_expr()
        enc.globals = {"__std_unix_epoch": enc.ev(e, {}, "true", 0, [])}
    return enc


def call(enc, name, *vals):
    env = {"a%d" % i: v for i, v in enumerate(vals)}
    return enc.call(name, [("var", "a%d" % i) for i in range(len(vals))], env, "true", 0, [])


def build_queries(tier, fns, structs, src):
    T = xr2smt.Enc.t
    hi = 3_000_000 if tier == "quick" else 10_000_000
    qs = []
    # 1. jd -> date -> jd, and date(jd) is a valid calendar date
    enc = fresh_enc(fns, structs, src)
    d = call(enc, "date", "jd")
    back = call(enc, "julian_day", d)
    qs.append(xc.Q("c20_jd_roundtrip", enc, ["(declare-const jd Int)"], ["(and (>= jd 0) (<= jd %d))" % hi],
                   "(= %s jd)" % T(back), "0 <= jd <= %d" % hi, "include.rs: date, julian_day"))
    enc = fresh_enc(fns, structs, src)
    d = call(enc, "date", "jd")
    qs.append(xc.Q("c20_jd_valid_date", enc, ["(declare-const jd Int)"], ["(and (>= jd 0) (<= jd %d))" % hi],
                   valid_date(enc, d), "0 <= jd <= %d" % hi, "include.rs: date"))
    # 2. valid date -> jd -> date, one query per month (the month is a constant in each)
    ylo, yhi = (-4000, 8000) if tier == "quick" else (-4700, 20000)
    for month in range(1, 13):
        enc = fresh_enc(fns, structs, src)
        D = {"year": "y", "month": month, "day": "d", "__struct": "Date"}
        jd = call(enc, "julian_day", D)
        d2 = call(enc, "date", jd)
        qs.append(xc.Q("c20_date_roundtrip_m%02d" % month, enc, ["(declare-const y Int)", "(declare-const d Int)"],
                       ["(and (>= y %s) (<= y %s))" % (T(ylo), T(yhi)), valid_date(enc, D)],
                       "(and (= %s y) (= %s %d) (= %s d) (>= %s 0))" % (T(d2["year"]), T(d2["month"]), month, T(d2["day"]), T(jd)),
                       "valid Gregorian dates of month %d, %d <= year <= %d" % (month, ylo, yhi), "include.rs: julian_day, date"))
    # 3. weekday(date(jd)) = jd mod 7 in 0..6 (so consecutive days have consecutive weekdays modulo 7)
    enc = fresh_enc(fns, structs, src)
    w0 = call(enc, "weekday", call(enc, "date", "jd"))
    m7 = enc.divmod("jd", 7, "floor", "true")[1]
    back = call(enc, "julian_day", call(enc, "date", "jd"))
    qs.append(xc.Q("c20_weekday_succ", enc, ["(declare-const jd Int)"],
                   ["(and (>= jd 0) (<= jd %d))" % hi, "(= %s jd)" % T(back)],  # lemma: c20_jd_roundtrip (same range)
                   "(and (= %s %s) (>= %s 0) (<= %s 6))" % (T(w0), T(m7), T(w0), T(w0)), "0 <= jd <= %d; uses c20_jd_roundtrip as a lemma" % hi, "include.rs: weekday, date, julian_day"))
    # 4. unix seconds -> datetime -> unix seconds (integral seconds)
    enc = fresh_enc(fns, structs, src)
    dt = call(enc, "datetime", "u")
    back = call(enc, "unix", dt)
    ulo, uhi = (-10**10, 10**11) if tier == "quick" else (-10**11, 10**12)
    prop = "(and (= %s u) (>= %s 0) (< %s 24) (>= %s 0) (< %s 60) (>= %s 0) (< %s 60) %s)" % (
        T(back), T(dt["hours"]), T(dt["hours"]), T(dt["minutes"]), T(dt["minutes"]), T(dt["seconds"]), T(dt["seconds"]), valid_date(enc, dt["date"]))
    qs.append(xc.Q("c20_unix_roundtrip", enc, ["(declare-const u Int)"], ["(and (>= u %s) (<= u %s))" % (T(ulo), T(uhi))], prop,
                   "integral Unix seconds %d <= u <= %d" % (ulo, uhi), "include.rs: datetime, unix, date, julian_day"))
    # 5. fraction(n, d): lowest terms, positive denominator, same value
    B = 8 if tier == "quick" else 14
    enc = xr2smt.Enc(fns, structs, rec_bound=8)
    F = call(enc, "fraction", "n", "d")
    fn_, fd_ = T(F["n"]), T(F["d"])
    coprime = " ".join("(not (and (= (mod %s %d) 0) (= (mod %s %d) 0)))" % (fn_, k, fd_, k) for k in range(2, B + 1))
    qs.append(xc.Q("c20_fraction_normal", enc, ["(declare-const n Int)", "(declare-const d Int)"],
                   ["(and (>= n %s) (<= n %d) (>= d %s) (<= d %d) (not (= d 0)))" % (T(-B), B, T(-B), B)],
                   "(and (> %s 0) (= (* %s d) (* n %s)) %s)" % (fd_, fn_, fd_, coprime),
                   "|n|, |d| <= %d, d != 0; gcd recursion unrolled 8 levels" % B, "include.rs: fraction(n, d), gcd, sign, abs"))
    return qs


def replayers():
    def jd_rt(model):
        jd = model.get("jd")
        src = "let d = date(%d); let r = julian_day(d); let y = d::year; let m = d::month; let dd = d::day;" % jd
        spec = dict(source=src, bindings=["r", "y", "m", "dd"])
        got = core.Native.get().run(spec)
        if got.get("panic"):
            return spec, "interpreter panicked: %s" % got["panic"]
        v = got.get("values", {})
        if v.get("r") != {"int": str(jd)}:
            return spec, "julian_day(date(%d)) = %s" % (jd, v.get("r"))
        y, m, d = (int(v[k]["int"]) for k in ("y", "m", "dd"))
        import calendar
        if not (1 <= m <= 12 and 1 <= d <= calendar.monthrange(y if y > 0 else 2000 + y % 400, m)[1]):
            return spec, "date(%d) = %d-%d-%d is not a calendar date" % (jd, y, m, d)
        return spec, None

    def date_rt(model, m=None):
        y, m, d = model.get("y"), model.get("m", m), model.get("d")
        lit = lambda v: "(-%d)" % -v if v < 0 else str(v)  # noqa
        src = "let d2 = date(julian_day(Date(%s, %s, %s))); let y = d2::year; let m = d2::month; let dd = d2::day;" % (lit(y), lit(m), lit(d))
        spec = dict(source=src, bindings=["y", "m", "dd"])
        got = core.Native.get().run(spec)
        if got.get("panic"):
            return spec, "interpreter panicked: %s" % got["panic"]
        v = got.get("values", {})
        if [v.get(k) for k in ("y", "m", "dd")] != [{"int": str(y)}, {"int": str(m)}, {"int": str(d)}]:
            return spec, "date(julian_day(Date(%d,%d,%d))) = %s" % (y, m, d, v)
        return spec, None

    def wd(model):
        jd = model.get("jd")
        src = "let a = weekday(date(%d)); let b = weekday(date(%d));" % (jd, jd + 1)
        spec = dict(source=src, bindings=["a", "b"])
        got = core.Native.get().run(spec)
        if got.get("panic"):
            return spec, "interpreter panicked: %s" % got["panic"]
        a, b = int(got["values"]["a"]["int"]), int(got["values"]["b"]["int"])
        if b != (a + 1) % 7 or not 0 <= a <= 6:
            return spec, "weekday(date(%d)) = %d but weekday(date(%d)) = %d" % (jd, a, jd + 1, b)
        return spec, None

    def ux(model):
        u = model.get("u")
        lit = "(-%d.0)" % -u if u < 0 else "%d.0" % u
        src = "let dt = datetime(%s); let r = unix(dt); let h = dt::hours; let mi = dt::minutes;" % lit
        spec = dict(source=src, bindings=["r", "h", "mi"])
        got = core.Native.get().run(spec)
        if got.get("panic"):
            return spec, "interpreter panicked: %s" % got["panic"]
        v = got.get("values", {})
        r = v.get("r", {})
        if "float" not in r or float(r["float"]) != float(u):
            return spec, "unix(datetime(%d)) = %s" % (u, r)
        h, mi = int(v["h"]["int"]), int(v["mi"]["int"])
        if not (0 <= h < 24 and 0 <= mi < 60):
            return spec, "datetime(%d) has hours=%d minutes=%d" % (u, h, mi)
        return spec, None
    import functools
    per_month = {"c20_date_roundtrip_m%02d" % k: functools.partial(date_rt, m=k) for k in range(1, 13)}
    def frac(model):
        n, d = model.get("n"), model.get("d")
        import math
        lit = lambda v: "(-%d)" % -v if v < 0 else str(v)  # noqa
        src = "let f = fraction(%s, %s); let fn_ = f::n; let fd = f::d;" % (lit(n), lit(d))
        spec = dict(source=src, bindings=["fn_", "fd"])
        got = core.Native.get().run(spec)
        if got.get("panic"):
            return spec, "interpreter panicked: %s" % got["panic"]
        v = got.get("values", {})
        g = math.gcd(n, d)
        want = (n // g * (1 if d > 0 else -1), abs(d) // g)
        if (v.get("fn_"), v.get("fd")) != ({"int": str(want[0])}, {"int": str(want[1])}):
            return spec, "fraction(%d, %d) = %s/%s, expected %d/%d" % (n, d, v.get("fn_"), v.get("fd"), want[0], want[1])
        return spec, None
    return {**per_month, "c20_fraction_normal": frac, "c20_jd_roundtrip": jd_rt, "c20_jd_valid_date": jd_rt, "c20_weekday_succ": wd, "c20_unix_roundtrip": ux}


def validate_translator(chk, qs, n):
    """push seeded concrete inputs through the real interpreter and through the encoding (check-sat with inputs fixed)"""
    rnd = random.Random(chk.seed)
    nat = core.Native.get()
    rp = replayers()
    checked = 0
    for q in qs:
        for _ in range(n):
            if q.name == "c20_fraction_normal":
                fix = {"n": rnd.randrange(-8, 9), "d": rnd.choice([-8, -5, -3, -2, -1, 1, 2, 3, 4, 6, 7])}
            elif q.name in ("c20_jd_roundtrip", "c20_jd_valid_date", "c20_weekday_succ"):
                fix = {"jd": rnd.randrange(0, 3_000_000)}
            elif q.name == "c20_unix_roundtrip":
                fix = {"u": rnd.randrange(-10**10, 10**11)}
            else:
                import calendar
                y = rnd.randrange(1, 8000)
                m = int(q.name[-2:])
                fix = {"y": y, "d": rnd.randrange(1, calendar.monthrange(y, m)[1] + 1)}
            # encoding: with the inputs fixed, `not prop` must be unsat exactly when the real interpreter satisfies the property
            r = smt.run_one("z3", q.script(True, fix), 30)
            spec, problem = rp[q.name](fix)
            enc_holds = r["verdict"] == "unsat"
            real_holds = problem is None
            checked += 1
            if enc_holds != real_holds:
                raise core.Inconclusive("translator validation: %s on %s: encoding says %s, real interpreter says %s (%s)" % (
                    q.name, fix, r["verdict"], "holds" if real_holds else "fails", problem))
    return checked


def run(chk):
    try:
        src, fns, structs = xr2smt.load(core.REPO)
        qs = build_queries(chk.tier, fns, structs, src)
    except xr2smt.Unsupported as e:
        raise core.Inconclusive("translator does not support the current prelude text: %s" % e)
    chk.assumptions += xc.ASSUMPTIONS
    if chk.only:
        qs = [q for q in qs if any(o in q.name for o in chk.only)]
    rp = replayers()
    timeout = 120 if chk.tier == "quick" else 1200
    import concurrent.futures as cf
    core.Native.get()
    with cf.ThreadPoolExecutor(max_workers=5) as ex:
        list(ex.map(lambda q: xc.discharge(chk, q, timeout, rp[q.name]), qs))
    chk.notes["validated"] = validate_translator(chk, qs, 5 if chk.tier == "quick" else 40)
    return chk.finish(out_of_claim=OUT)
