"""run one SMT-LIB2 script through z3 and cvc5 and cross-check the verdicts"""
import re
import subprocess
import time

SOLVERS = {
    "z3": lambda t: ["/usr/bin/z3", "-smt2", "-in", "-T:%d" % t],
    "z3-new": lambda t: ["z3-new", "-smt2", "-in", "-T:%d" % t],
    "cvc5": lambda t: ["cvc5", "--lang", "smt2", "--produce-models", "--strings-exp", "--tlimit=%d" % (t * 1000)],
}


def run_one(name, script, timeout):
    t0 = time.time()
    try:
        p = subprocess.run(SOLVERS[name](timeout), input=script, capture_output=True, text=True, timeout=timeout + 10)
        out = p.stdout + p.stderr
    except subprocess.TimeoutExpired:
        return dict(solver=name, verdict="timeout", seconds=time.time() - t0, model={}, raw="")
    secs = time.time() - t0
    out_err = "\n".join(l for l in out.splitlines() if "(error" in l and "model is not available" not in l and "Cannot get value" not in l)
    if out_err:
        return dict(solver=name, verdict="error", seconds=secs, model={}, raw=out[:500])
    m = re.search(r"^(sat|unsat|unknown|timeout)\s*$", out, re.M)
    verdict = m.group(1) if m else "unknown"
    model = {}
    for mm in re.finditer(r"\((\w+) (\(- (\d+)\)|-?\d+)\)", out):
        model[mm.group(1)] = -int(mm.group(3)) if mm.group(3) else int(mm.group(2))
    for mm in re.finditer(r'\((\w+) "((?:[^"]|"")*)"\)', out):
        model[mm.group(1)] = mm.group(2).replace('""', '"')
    return dict(solver=name, verdict=verdict, seconds=secs, model=model, raw=out[:300])


def _parse(name, out, secs):
    out_err = "\n".join(l for l in out.splitlines() if "(error" in l and "model is not available" not in l and "Cannot get value" not in l)
    if out_err:
        return dict(solver=name, verdict="error", seconds=secs, model={}, raw=out[:500])
    m = re.search(r"^(sat|unsat|unknown|timeout)\s*$", out, re.M)
    verdict = m.group(1) if m else "unknown"
    model = {}
    for mm in re.finditer(r"\((\w+) (\(- (\d+)\)|-?\d+)\)", out):
        model[mm.group(1)] = -int(mm.group(3)) if mm.group(3) else int(mm.group(2))
    for mm in re.finditer(r'\((\w+) "((?:[^"]|"")*)"\)', out):
        model[mm.group(1)] = mm.group(2).replace('""', '"')
    return dict(solver=name, verdict=verdict, seconds=secs, model=model, raw=out[:300])


def decide(script, timeout, logic_note=""):
    """all solvers run concurrently; unsat needs two of them to answer unsat (the third is then stopped) and none to answer
    sat or error; sat is taken from the first solver that finds a model, provided none answered unsat"""
    import tempfile
    procs = {}
    t0 = time.time()
    files = {}
    for n in SOLVERS:
        f = tempfile.TemporaryFile(mode="w+")
        files[n] = f
        procs[n] = subprocess.Popen(SOLVERS[n](timeout), stdin=subprocess.PIPE, stdout=f, stderr=subprocess.STDOUT, text=True)
        try:
            procs[n].stdin.write(script)
            procs[n].stdin.close()
        except BrokenPipeError:
            pass
    res = {}
    while len(res) < len(procs) and time.time() - t0 < timeout + 15:
        for n, p in procs.items():
            if n in res or p.poll() is None:
                continue
            files[n].seek(0)
            res[n] = _parse(n, files[n].read(), time.time() - t0)
        vs = [r["verdict"] for r in res.values()]
        if vs.count("unsat") >= 2 or "sat" in vs or "error" in vs:
            break
        time.sleep(0.05)
    for n, p in procs.items():
        if p.poll() is None:
            p.kill()
            res.setdefault(n, dict(solver=n, verdict="stopped" if len(res) >= 2 else "timeout", seconds=time.time() - t0, model={}, raw=""))
        elif n not in res:
            files[n].seek(0)
            res[n] = _parse(n, files[n].read(), time.time() - t0)
    res = [res[n] for n in SOLVERS]
    vs = [r["verdict"] for r in res]
    per = [{k: r[k] for k in ("solver", "verdict", "seconds")} for r in res]
    for p in per:
        p["seconds"] = round(p["seconds"], 2)
    if vs.count("unsat") >= 2 and not any(v in ("sat", "error") for v in vs):
        return dict(verdict="unsat", model={}, per_solver=per)
    sat = [r for r in res if r["verdict"] == "sat"]
    if sat and not any(v == "unsat" for v in vs):
        return dict(verdict="sat", model=sat[0]["model"], per_solver=per)
    return dict(verdict="inconclusive", model={}, per_solver=per, detail="solvers answered %s" % vs)
