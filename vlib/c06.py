"""C06 — errors propagate as values; violations cannot be caught (narrowed).  K-crate: the error-handling and short-circuit
natives through their real registration with a recording evaluator; construction / insertion natives with error arguments;
violation forwarding of generator adaptors."""
from . import kcrate

OUT = [
    "propagation through user-function calls and struct/tuple/array construction in RuntimeScope::eval (the evaluator's own recursion "
    "does not finish in CBMC); the prelude's own handlers; is_error/if_error with a message filter (string search)",
    "arguments are pre-evaluated values / error values; `evaluated at most once, left to right` is observed through a recording stub of eval",
]


def run(chk):
    return kcrate.run(chk, [("builtin__generic.rs", "c06_"), ("builtin__bool.rs", "c06_"), ("builtin__optional.rs", "c06_"),
                            ("builtin__sequence.rs", "c06_"), ("builtin__generators.rs", "c06_"), ("builtin__mapping.rs", "c06_")], out=OUT)
