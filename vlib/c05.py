"""C05 — overload resolution is ranked, unambiguous and stable (narrowed): the classification and ranking part of
resolve_overload, decided on a verbatim source slice against a symbolic set of candidates."""
from . import c08

OUT = [
    "everything before the ranking: name lookup across scope levels, forward-reference filtering, Auto specialisation, and the "
    "signature binding itself (XFuncSpec::bind, C04) - a candidate is modelled by whether it binds",
    "the `prefer generic when an argument type is unknown` rule and short_circuit_overloads (builtins only); more than 3 candidates",
]


def run(chk):
    c08.run_slices(chk, ["c05_"], module="c05")
    return chk.finish(out_of_claim=OUT)
