"""shared helpers for X-smt checks: building queries from the prelude text, deciding them, replaying models"""
import os
import sys
import time

from . import core, smt

sys.path.insert(0, os.path.join(core.VERIF, "xsmt"))
import xr2smt  # noqa

ASSUMPTIONS = [
    "X-smt: the xray-language source of the prelude functions is read from /repo/src/builtin/include.rs on every run and "
    "symbolically evaluated by /verif/xsmt/xr2smt.py into SMT-LIB2; operator precedence is read from parser.rs' PrecClimber table",
    "integer division/modulo are encoded with explicit quotient/remainder variables (division lemma); `%` on ints is the floored "
    "remainder (documented; decided for the implementation by C14) and trunc(a/b)/floor(a/b) through float division equal exact "
    "integer division for |a| < 2^40 (float lemma, decided by Kani where it finishes, otherwise stated as an assumption)",
    "floats are modelled as integers: only integral-valued float arguments are in scope",
    "every query is decided by z3 4.8.12 and cvc5 1.0; both must answer; any (error line or disagreement is inconclusive",
    "translator validation: seeded concrete inputs are pushed through the real interpreter and through the encoding and must agree",
]


class Q:
    """one query: declarations + assumptions + property; discharged when (assumptions and not property) is unsat and assumptions is sat"""

    def __init__(self, name, enc, decls, assume, prop, bounds, functions):
        self.name, self.enc, self.decls, self.assume, self.prop, self.bounds, self.functions = name, enc, decls, assume, prop, bounds, functions

    def script(self, negate=True, fix=None):
        logic = "QF_NIA" if self.enc.nonlinear else "QF_LIA"
        lines = ["(set-logic %s)" % logic] + self.decls + self.enc.decls
        lines += ["(assert %s)" % a for a in self.assume]
        lines += ["(assert %s)" % a for a in self.enc.asserts]
        for pc in self.enc.bound_hit:
            lines.append("(assert (not %s))" % pc)  # paths that exceed the recursion bound are outside the claim
        for k, v in (fix or {}).items():
            lines.append("(assert (= %s %s))" % (k, xr2smt.Enc.t(v)))
        if negate:
            lines.append("(assert (not %s))" % self.prop)
        lines.append("(check-sat)")
        names = [d.split()[1] for d in self.decls]
        if names:
            lines.append("(get-value (%s))" % " ".join(names))
        return "\n".join(lines) + "\n"


def discharge(chk, q, timeout, replay):
    """replay(model) -> (spec, problem or None) renders the model as a script and runs it on the real interpreter"""
    ob = core.Ob(q.name, "X-smt (z3 + cvc5)", functions_encoded=q.functions, bounds=q.bounds)
    t0 = time.time()
    r = smt.decide(q.script(True), timeout)
    ob.info["solvers"] = r["per_solver"]
    ob.info["constraints"] = len(q.enc.asserts)
    ob.info["logic"] = "QF_NIA" if q.enc.nonlinear else "QF_LIA"
    w = smt.decide(q.script(False), timeout)
    ob.covers = {"assumptions satisfiable (vacuity witness)": "SATISFIED" if w["verdict"] == "sat" else "UNSATISFIABLE" if w["verdict"] == "unsat" else "UNDETERMINED"}
    ob.seconds = time.time() - t0
    if r["verdict"] == "unsat":
        ob.verdict = "pass" if w["verdict"] == "sat" else "vacuous"
        if ob.verdict == "vacuous":
            ob.detail = "assumptions not shown satisfiable: %s" % w
    elif r["verdict"] == "sat":
        ob.info["model"] = r["model"]
        ob.failed = [{"desc": q.name, "loc": q.functions, "status": "FAILURE", "check": "smt"}]
        k = chk.known_for(q.name, None)
        spec, problem = replay(r["model"])
        if problem and k:
            ob.verdict = "known"
            line = "query=%s %s" % (q.name, k["what"])
            if line not in chk.known_printed:
                chk.known_printed.append(line)
        elif problem:
            ob.verdict = "fail"
            path = chk.save_replay(q.name, dict(kind="script", property=chk.pid, spec=spec, model=r["model"], problem=problem, query=q.name))
            chk.violations.append((ob, path, "%s: %s" % (q.name, problem)))
        else:
            ob.verdict = "inconclusive"
            ob.detail = "solver model %s does not reproduce on the real interpreter (encoding wrong?)" % r["model"]
    else:
        ob.verdict = "inconclusive"
        ob.detail = str(r.get("detail"))
    chk.add(ob)
    return ob
