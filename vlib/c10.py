"""C10 — limits bound all work (narrowed): bounded work of the integer natives whose loops depend on their arguments, as
unwinding assertions."""
from . import kcrate

OUT = [
    "every builtin that iterates sequences, generators, mappings or sets (behind Rc<dyn XNativeValue>: not explorable, DESIGN 9.2), whole pipelines, wall-clock behaviour",
    "digits for n >= 4096 or bases above 11; binom/multinom (symbolic x symbolic products do not finish)",
]


def run(chk):
    return kcrate.run(chk, [("builtin__int.rs", "c10_")], out=OUT, timeouts=(600, 2400))
