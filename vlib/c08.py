"""C08 — depth, recursion, call and search limits are exact.  K-crate harnesses on runtime.rs / runtime_scope.rs / natives."""
from . import kcrate

OUT = [
    "counting of calls made by higher-order builtins into user functions (needs the evaluator loop on a compiled program)",
    "time limit exactness (only `no call begins after the deadline`, see C10)",
    "limits L > 5 for the search budget, more than 4 consecutive calls from one symbolic pre-state (the pre-state is arbitrary, so this is an inductive step)",
]


def run(chk):
    return kcrate.run(chk, [("runtime.rs", "c08_"), ("runtime_scope.rs", "c08_")], out=OUT)
