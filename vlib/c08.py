"""C08 — depth, recursion, call and search limits are exact.
K-crate: the call counter and the search budget on the real runtime.rs.  K-unit slices: the depth check of
RuntimeScope::from_template and the recursion counter of the tail-call trampoline (verbatim source text in a shim environment)."""
import os
import re

from . import core, kcrate, kunit

OUT = [
    "counting of calls made by higher-order builtins into user functions (needs the evaluator loop on a compiled program)",
    "time limit exactness (only `no call begins after the deadline`, see C10)",
    "search limits L > 5, recursion limits L > 3 / more than 5 consecutive tail calls, more than 4 consecutive counter steps from one symbolic pre-state",
    "the depth check and the trampoline are decided on source slices: their callees (from_template's declaration loop, eval) are a scripted environment",
]


def run_slices(chk, prefixes, module="c08"):
    crate = kunit.prepare(chk)
    chk.assumptions += [a for a in kunit.ASSUMPTIONS if a not in chk.assumptions]
    chk.assumptions.append("slices: brace-matched blocks of src/runtime_scope.rs are copied verbatim on every run into the shim "
                           "environments /verif/kani/unit/slices/{depth_step,trampoline}.rs (same identifiers, symbolic environment)")
    if not crate.build():
        raise core.Inconclusive("K-unit build failed:\n" + crate.build_log[-3000:])
    src = open(os.path.join(core.VERIF, "kani/unit/src/h/%s.rs" % module)).read()
    names = [n for n in re.findall(r"#\[kani::proof\](?:\s*#\[[^\]]*\])*\s*fn (\w+)", src) if any(n.startswith(p) for p in prefixes)]
    if chk.only:
        names = [n for n in names if any(o in n for o in chk.only)]
    else:
        names = [n for n in names if not n.endswith("_x")]  # kept for the record: do not finish (DESIGN 9.2)
    tmo = 300 if chk.tier == "quick" else 1800
    specs = []
    for n in names:
        sl = crate.slices.get("overload_rank" if "c05" in n else "depth_step" if "depth" in n else "gen_slice_arm" if "c16" in n else "take_while_loop" if "take_while" in n else "trampoline", {})
        # the overload slice allocates several small Vecs: std's pointer checks on their reallocation exhaust the SAT
        # encoder's memory and are not the subject (panics, overflow, bounds and the unwinding assertions stay on)
        extra = ["-Z", "unstable-options", "--no-memory-safety-checks"] if "c05" in n else None
        specs.append(dict(name="h::%s::%s" % (module, n), timeout=tmo, extra=extra, mem_gb=20, info=dict(
            functions_encoded="%s slice (sha256 %s, %s lines)" % (sl.get("source"), sl.get("sha256"), sl.get("lines")), timeout=tmo,
            bounds="symbolic limit, arbitrary parent height (inductive step)" if "depth" in n else "recursion limit <= 3, scripts of <= 5 symbolic steps")))
    obs = core.run_harnesses(chk, crate, specs, logdir=os.path.join(core.CACHE, "logs", chk.pid))
    core.triage(chk, crate, obs, {})


def run(chk):
    run_slices(chk, ["c08_", "c07_trampoline"])
    return kcrate.run(chk, [("runtime.rs", "c08_"), ("runtime_scope.rs", "c08_"), ("builtin__sequence.rs", "c08_")], out=OUT)
