"""C15 — sequences behave as lists whatever their representation (narrowed).  K-crate: range / get / push / insert / pop
natives through their real registration on symbolic operands, XSequence::len/get."""
from . import kcrate

OUT = [
    "every representation behind Rc<dyn XNativeValue> (Map, Zip, Chain, Slice and the natives push/insert/pop/get that receive sequences as values: not explorable by CBMC, DESIGN 9.2), prelude functions "
    "(reverse, repeat, combinations...), sort (C19), sequences longer than 3 elements",
    "range steps outside the constant table {1, 2, 7, -1, -3, i64::MAX} (symbolic divisors do not finish)",
]


def run(chk):
    return kcrate.run(chk, [("builtin__sequence.rs", "c15_")], out=OUT, timeouts=(400, 2400))
