"""K-crate engine: the whole xray crate copied to a scratch dir, harness modules appended to the files whose
private items they need, compiled by cargo kani against the bounded bigint model."""
import os
import re
import shutil

from . import core

HARNESS_DIR = os.path.join(core.VERIF, "kani", "crate")

ASSUMPTIONS = [
    "K-crate: /repo's working tree (src, Cargo.toml, Cargo.lock) is copied to a scratch dir; each harness file "
    "/verif/kani/crate/<path>.rs is appended as `#[cfg(kani)] mod verif_kani { use super::*; .. }` to src/<path>.rs; no line of xray is rewritten",
    "scratch Cargo adjustments: proc-macro2 1.0.51 -> 1.0.107 (old build script does not compile on Kani's nightly); "
    "ahash 0.7.6 patched not to enable stdsimd/runtime-rng; aho-corasick 0.7.20 with a hand-written Debug on one private enum (Kani ICE)",
    "num-bigint/num-rational are replaced by the bounded exact i128 model in /verif/kani/models (operands |v| < 2^100; "
    "division specified by the division lemma under Kani); text conversion of the model is not faithful and is outside every claim",
    "std::collections::{HashMap, HashSet} used by xray's own files (Bind, scope tables, mapping/set buckets, PermissionSet) are "
    "replaced by association-list models with the same API (/verif/kani/crate/mapmodel.rs): hashbrown does not finish in CBMC",
    "stub: std::collections::hash_map::RandomState::new -> fixed keys (getrandom is not modelled); HashMap behaviour is key-independent",
    "stub: RootCompilationScope::identifier -> injective table over the names a harness registers (the real interner compiles a regex on first use)",
    core.KANI_TOOLCHAIN_NOTE,
]


def module_files():
    out = {}
    for fn in sorted(os.listdir(HARNESS_DIR)):
        if fn.endswith(".rs") and fn not in ("common.rs", "mapmodel.rs"):
            out[fn] = fn[:-3].replace("__", "/") + ".rs"
    return out


def prepare(chk, rustflags="", only_modules=None):
    d = core.scratch("kcrate")
    crate = os.path.join(d, "crate")
    core.rsync_repo(crate)
    # --- Cargo.toml
    cargo = os.path.join(crate, "Cargo.toml")
    txt = open(cargo).read()
    models = os.path.join(core.VERIF, "kani", "models")
    txt, n1 = re.subn(r'(?m)^num-bigint\s*=.*$', 'num-bigint = { path = "%s/num-bigint" }' % models, txt)
    txt, n2 = re.subn(r'(?m)^num-rational\s*=.*$', 'num-rational = { path = "%s/num-rational" }' % models, txt)
    if n1 != 1 or n2 != 1:
        raise core.Inconclusive("Cargo.toml: could not redirect num-bigint/num-rational")
    txt += '\n[workspace]\n\n[patch.crates-io]\nahash = { path = "%s/vendor/ahash-0.7.6" }\naho-corasick = { path = "%s/vendor/aho-corasick-0.7.20" }\n' % (core.VERIF, core.VERIF)
    txt += '\n[lints.rust]\nunexpected_cfgs = { level = "allow" }\n'
    open(cargo, "w").write(txt)
    # --- lock: proc-macro2 bump (offline, from the local registry)
    rc, out, _, _ = core.sh(["cargo", "update", "-p", "proc-macro2", "--precise", "1.0.107", "--offline"], cwd=crate, timeout=300)
    if rc != 0:
        raise core.Inconclusive("cargo update proc-macro2 failed: " + out[-1500:])
    # --- harness modules
    hashes = {}
    lib = os.path.join(crate, "src", "lib.rs")
    common = open(os.path.join(HARNESS_DIR, "common.rs")).read()
    open(os.path.join(crate, "src", "verif_common.rs"), "w").write(common)
    libtxt = open(lib).read()
    open(lib, "w").write("#![cfg_attr(kani, feature(allocator_api))]\n" + libtxt + "\n#[cfg(kani)]\n#[macro_use]\npub(crate) mod verif_common;\n")
    # --- std HashMap/HashSet -> association-list model (import lines of xray's own files are redirected)
    shutil.copy2(os.path.join(HARNESS_DIR, "mapmodel.rs"), os.path.join(crate, "src", "verif_mapmodel.rs"))
    with open(lib, "a") as f:
        f.write("\n#[cfg(kani)]\npub(crate) mod verif_mapmodel;\n")
    redirected = 0
    for root_, _, files in os.walk(os.path.join(crate, "src")) if not os.environ.get("VERIF_NO_MAPMODEL") else []:
        for fn_ in files:
            if not fn_.endswith(".rs") or fn_.startswith("verif_"):
                continue
            pth = os.path.join(root_, fn_)
            txt = open(pth).read()
            new = re.sub(r"(?m)^use std::collections::(HashMap|HashSet|\{HashMap, HashSet\});", r"use crate::verif_mapmodel::\1;", txt)
            if new != txt:
                redirected += 1
                open(pth, "w").write(new)
    if redirected < 5 and not os.environ.get("VERIF_NO_MAPMODEL"):
        raise core.Inconclusive("HashMap redirect: only %d import lines found" % redirected)
    for fn, rel in module_files().items():
        if only_modules and fn not in only_modules:
            continue
        target = os.path.join(crate, "src", rel)
        if not os.path.exists(target):
            raise core.Inconclusive("harness target src/%s does not exist in /repo" % rel)
        hashes["src/" + rel] = core.sha(os.path.join(core.REPO, "src", rel))
        body = open(os.path.join(HARNESS_DIR, fn)).read()
        with open(target, "a") as f:
            f.write("\n#[cfg(kani)]\n#[allow(unused_imports, dead_code, unused_variables, unused_mut)]\npub(crate) mod verif_kani {\n    use super::*;\n    use crate::verif_common::*;\n    use crate::trace;\n    use crate::native_harness;\n    use crate::native_harness_rec;\n"
                    + body + "\n// VERIF-PLAYBACK-INSERT\n}\n")
    kc = core.KaniCrate(crate, os.path.join(core.CACHE, "target-crate"), "K-crate (Kani/CBMC)", rustflags)
    kc.hashes = hashes
    return kc


def harnesses_in(fn, prefix):
    src = open(os.path.join(HARNESS_DIR, fn)).read()
    names = re.findall(r"#\[kani::proof\](?:\s*#\[[^\]]*\])*\s*fn (%s\w*)" % prefix, src)
    names += re.findall(r"_harness!\(\s*(%s\w*)," % prefix, src)
    names += re.findall(r"native_harness(?:_rec)?! \{(?:\s*#\[[^\]]*\])*\s*fn (%s\w*)" % prefix, src)
    return sorted(set(names))


def module_path(fn):
    """rust path of the appended module for harness file fn"""
    rel = fn[:-3].replace("__", "::")
    return "%s::verif_kani" % rel


THOROUGH_ONLY = re.compile(r"_t$|_thorough$")

# recursion bounds (DESIGN 2.3): the recursive drop glue / clone of the expression, value and type trees is entered at most
# once per drop site; harness data never nests these types, and the unwinding assertions check that
DEFAULT_UNWIND_RULES = [
    (r"^std::ptr::drop_glue::<.*(xexpr::XExpr|xtype::XType|xtype::XCompoundSpec|xtype::XFuncSpec|xvalue::XValue|Declaration|StaticUserFunction|XStaticFunction)", 1),
    (r"^std::ptr::drop_in_place::<.*(xexpr::XExpr|xtype::XType|xtype::XCompoundSpec|xvalue::XValue)", 1),
    (r"^<xexpr::XExpr<.*> as std::clone::Clone>::clone", 1),
    (r"^std::ptr::drop_glue::<std::io::Error>|^std::ptr::drop_glue::<runtime_violation::RuntimeViolation>", 1),
    (r"^builtin::sequence::XSequence::<.*>::(len|get)$", 1),  # harness sequences are flat arrays / ranges
    (r"^memcmp$", 24),  # string comparisons of identifiers / permission ids (<= 23 bytes)
]


# per-harness recursion bounds for the recursive representations (name prefix -> rules); the harness data nests at most this deep
EXTRA_RULES = [
    # C04: harness types have depth <= 2 (a compound of leaves): the recursive type functions are entered at most twice
    ("c04_", [(r"^xtype::XType::(bind_in_assignment|common_type|resolve_bind)$", 2, 4),
              (r"^<xtype::XType as std::cmp::PartialEq>::eq$", 2, 4),
              (r"^xtype::Bind::mix$", 1, 4)]),
    ("c15_", [(r"^builtin::sequence::XSequence::<.*>::(len|get)$", 1)]),
    ("c16_", [(r"^builtin::generators::XGenerator::<.*>::(_iter|iter|len)", 2), (r"^builtin::sequence::XSequence::<.*>::(len|get)$", 1)]),
    ("c06_", [(r"^builtin::sequence::XSequence::<.*>::(len|get)$", 1)]),
    ("c10_", [(r"^builtin::sequence::XSequence::<.*>::(len|get)$", 1)]),
    ("c17_", [(r"^builtin::sequence::XSequence::<.*>::(len|get)$", 1)]),
]


def rules_for(name):
    rules = list(DEFAULT_UNWIND_RULES)
    for prefix, extra in EXTRA_RULES:
        if name.startswith(prefix):
            rules = extra + rules
    return rules


def specs_for(chk, crate, selections, timeout, extra=None, cbmc_args=None):
    """selections: [(harness file, name prefix)] -> harness specs; names ending in _t are thorough-tier only"""
    specs = []
    for fn, prefix in selections:
        if fn not in module_files():
            continue
        for n in harnesses_in(fn, prefix):
            if chk.tier == "quick" and THOROUGH_ONLY.search(n):
                continue
            if n.endswith("_x") and not chk.only:
                continue  # kept for the record: does not finish within the thorough cap (DESIGN 9.2)
            if chk.only and not any(o in n for o in chk.only):
                continue
            rel = "src/" + module_files()[fn]
            specs.append(dict(name="%s::%s" % (module_path(fn), n), timeout=timeout, extra=extra, cbmc_args=cbmc_args,
                              unwind_rules=rules_for(n),
                              info=dict(functions_encoded="%s (sha256 %s) + callees, whole crate compiled" % (rel, crate.hashes.get(rel)),
                                        timeout=timeout)))
    return specs


_crate_cache = {}


def run(chk, selections, renderers=None, out=None, timeouts=(300, 1800), mem_gb=12, finish=True):
    # nothing selected (e.g. --only names another engine's obligation): skip the whole-crate build
    class _NoCrate:
        hashes = {}
    if not specs_for(chk, _NoCrate, selections, 1):
        return chk.finish(out_of_claim=out or []) if finish else None
    crate = prepare(chk)
    chk.assumptions += [a for a in ASSUMPTIONS if a not in chk.assumptions]
    if not crate.build():
        raise core.Inconclusive("K-crate build failed:\n" + crate.build_log[-4000:])
    tmo = timeouts[0] if chk.tier == "quick" else timeouts[1]
    specs = specs_for(chk, crate, selections, tmo)
    for s in specs:
        s["mem_gb"] = mem_gb
    obs = core.run_harnesses(chk, crate, specs, logdir=os.path.join(core.CACHE, "logs", chk.pid))
    core.triage(chk, crate, obs, renderers or {},
                excl_factory=lambda cfgs: prepare(chk, rustflags=" ".join("--cfg " + c for c in cfgs)))
    if finish:
        return chk.finish(out_of_claim=out or [])
    return crate
