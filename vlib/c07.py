"""C07 — tail-call optimisation is transparent (narrowed): the trampoline loop of eval_func_with_values, decided on a
verbatim source slice in a scripted environment."""
from . import c08

OUT = [
    "tail-position detection in eval's Call arm and tail-flag forwarding by the short-circuit natives (need the evaluator / natives)",
    "equivalence with ordinary recursion for real function bodies; only the trampoline's own logic is decided: "
    "scripts of <= 5 steps, recursion limits <= 3",
]


def run(chk):
    c08.run_slices(chk, ["c07_"])
    return chk.finish(out_of_claim=OUT)
