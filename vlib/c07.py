"""C07 — tail-call optimisation is transparent (narrowed): the trampoline loop of eval_func_with_values, decided on a
verbatim source slice in a scripted environment."""
from . import c08, kcrate

OUT = [
    "tail-position detection in eval's Call arm (needs the evaluator); natives other than if, if_error, and, or, optional or/and",
    "equivalence with ordinary recursion for real function bodies; only the trampoline's own logic is decided: "
    "scripts of <= 5 steps, recursion limits <= 3",
]


def run(chk):
    c08.run_slices(chk, ["c07_"])
    # the short-circuit natives hand the caller's tail flag to the selected branch only (recording evaluator)
    return kcrate.run(chk, [("builtin__generic.rs", "c06_if"), ("builtin__bool.rs", "c06_bool"), ("builtin__optional.rs", "c06_optional")], out=OUT)
