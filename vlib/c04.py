"""C04 — static checking accepts exactly the assignable programs (narrowed).  K-crate: XType::bind_in_assignment and
common_type against a reference relation over a symbolic universe of types of depth <= 2."""
from . import kcrate

OUT = [
    "the six syntactic positions that funnel into these functions (behind the parser), error-class text",
    "compounds (struct/union with generic arguments), native containers and XFunc with optional parameters in the universe; "
    "types deeper than 2 or with more than 2 components; more than two generic parameters",
]


def run(chk):
    return kcrate.run(chk, [("xtype.rs", "c04_")], out=OUT, timeouts=(600, 2400))
