"""C19 — derived eq/hash/cmp/to_str coherent; sorting is right (narrowed).
K-unit: the real trysort.rs / try_heap.rs with a symbolic comparator that may fail at any call."""
import os
import re

from . import core, kunit

OUT = [
    "slices longer than 6 in try_sort: the run/merge path of the driver starts at 21 elements; its run detection is decided on a "
    "verbatim slice (<= 6 elements), insert_head directly (<= 5); `merge` and `collapse` are not decided",
    "XFormatting::from_str (regex), float/int format natives' text, to_str = format(x, \"\")",
    "derived eq/cmp/hash factories of tuples/sequences/optionals (need the evaluator), prelude order-statistic functions",
    "keys wider than 2 bits (the comparator is a total preorder on 4 keys; indices make elements distinct)",
]


def run(chk):
    crate = kunit.prepare(chk)
    chk.assumptions += kunit.ASSUMPTIONS
    if not crate.build():
        raise core.Inconclusive("K-unit build failed:\n" + crate.build_log[-3000:])
    names = []
    for path, mod in (("kani/unit/src/h/c19.rs", "h::c19"), ("kani/unit/appends/trysort.rs", "trysort::verif_kani")):
        src = open(os.path.join(core.VERIF, path)).read()
        ns = re.findall(r"#\[kani::proof\](?:\s*#\[[^\]]*\])*\s*fn (c19_\w*)", src) + re.findall(r"_harness!\((c19_\w*),", src)
        names += ["%s::%s" % (mod, n) for n in ns]
    if chk.tier == "quick":
        names = [n for n in names if not n.endswith("_t")]
    if chk.only:
        names = [n for n in names if any(o in n for o in chk.only)]
    tmo = 400 if chk.tier == "quick" else 3000
    files = "src/util/trysort.rs (sha256 %s), src/util/try_heap.rs (sha256 %s)" % (
        crate.hashes.get("src/util/trysort.rs"), crate.hashes.get("src/util/try_heap.rs"))
    specs = [dict(name=n, timeout=tmo, info=dict(functions_encoded=files, timeout=tmo,
                                                   bounds="elements (key < 4, original index); comparator fails at a symbolic call index; lengths per harness name"))
             for n in names]
    obs = core.run_harnesses(chk, crate, specs, logdir=os.path.join(core.CACHE, "logs", "C19"))
    core.triage(chk, crate, obs, {})
    return chk.finish(out_of_claim=OUT)
