"""C09 — size limit enforced, accounting balances.  K-crate: one allocate/drop step from an arbitrary accounted state."""
from . import kcrate

OUT = [
    "balance over whole runs that end in a violation (needs the evaluator); only the allocate/deallocate step and the wrappers' Drop are decided",
    "drops of compound XValues (recursive drop glue); the accounting wrapper is the same code as for scalars",
    "dyn_size of sequences/mappings/sets/generators (size >= payload) beyond ints and strings",
    "limit values >= 2^62",
]


def run(chk):
    return kcrate.run(chk, [("runtime.rs", "c09_")], out=OUT)
