"""Shared machinery for /verif/check: scratch copies, Kani runs, verdict protocol, evidence.

Exit codes: 0 = all obligations discharged and non-vacuous (known findings only printed),
1 = reproduced violation not in known_findings.jsonl, 2 = inconclusive.
"""
import atexit
import concurrent.futures as cf
import hashlib
import json
import os
import re
import shutil
import subprocess
import sys
import tempfile
import time

VERIF = os.path.dirname(os.path.dirname(os.path.abspath(__file__)))
REPO = os.environ.get("VERIF_REPO", "/repo")
CACHE = os.path.join(VERIF, ".cache")
NCPU = int(os.environ.get("VERIF_JOBS", "16"))
ENV = dict(os.environ, CARGO_NET_OFFLINE="true", CARGO_TERM_COLOR="never")
ENV.pop("RUSTFLAGS", None)

_scratch_dirs = []


def _cleanup():
    for d in _scratch_dirs:
        shutil.rmtree(d, ignore_errors=True)


atexit.register(_cleanup)


def scratch(prefix):
    base = os.environ.get("VERIF_TMP", "/var/tmp")
    d = tempfile.mkdtemp(prefix="xray-verif.%s." % prefix, dir=base)
    _scratch_dirs.append(d)
    return d


def sh(cmd, cwd=None, timeout=None, env=None, mem_gb=None):
    """run a command, return (rc, output, seconds, timed_out)"""
    t0 = time.time()
    pre = None
    if mem_gb:
        import resource

        def pre():  # noqa
            lim = int(mem_gb * (1 << 30))
            resource.setrlimit(resource.RLIMIT_AS, (lim, lim))
            os.setsid()
    else:
        pre = os.setsid
    p = subprocess.Popen(cmd, cwd=cwd, env=env or ENV, stdout=subprocess.PIPE, stderr=subprocess.STDOUT,
                         preexec_fn=pre, text=True, errors="replace")
    try:
        out, _ = p.communicate(timeout=timeout)
        return p.returncode, out, time.time() - t0, False
    except subprocess.TimeoutExpired:
        import signal
        try:
            os.killpg(p.pid, signal.SIGKILL)
        except ProcessLookupError:
            pass
        out, _ = p.communicate()
        return -9, out, time.time() - t0, True


def sha(path):
    h = hashlib.sha256()
    with open(path, "rb") as f:
        h.update(f.read())
    return h.hexdigest()[:16]


# ---------------------------------------------------------------------------------------------
# known findings

def load_known():
    path = os.path.join(VERIF, "known_findings.jsonl")
    known, fixed = [], []
    if os.path.exists(path):
        for line in open(path):
            line = line.strip()
            if not line or line.startswith("#"):
                continue
            if line.startswith("fixed:"):
                fixed.append(line)
                continue
            known.append(json.loads(line))
    return known, fixed


# ---------------------------------------------------------------------------------------------
# obligations and results

class Ob:
    """one solver obligation (a Kani harness or an SMT query)"""

    def __init__(self, name, engine, **kw):
        self.name = name
        self.engine = engine
        self.verdict = None  # pass | fail | inconclusive | vacuous | known
        self.seconds = 0.0
        self.detail = ""
        self.failed = []  # failed assertion labels
        self.covers = {}  # label -> SATISFIED/UNSATISFIABLE/UNREACHABLE
        self.info = kw  # bounds, stubs, files, ...
        self.log = None
        self.rss_mb = None

    def to_json(self):
        d = dict(obligation=self.name, engine=self.engine, verdict=self.verdict, solver_seconds=round(self.seconds, 2))
        if self.failed:
            d["failed_checks"] = self.failed
        if self.covers:
            d["reachability_witnesses"] = self.covers
        if self.detail:
            d["detail"] = self.detail
        d.update(self.info)
        return d


class Check:
    def __init__(self, pid, tier, seed):
        self.pid = pid
        self.tier = tier
        self.seed = seed
        self.t0 = time.time()
        self.obs = []
        self.assumptions = []
        self.violations = []  # (ob, replay_path, what)
        self.known_printed = []
        self.notes = {}
        self.known, self.fixed = load_known()
        self.replays_dir = os.path.join(VERIF, "replays", pid)

    def known_for(self, harness, label):
        for k in self.known:
            if k["property"] != self.pid:
                continue
            if k.get("harness") == harness and (k.get("label") is None or k.get("label") == label):
                return k
        return None

    def add(self, ob):
        self.obs.append(ob)
        return ob

    def save_replay(self, name, payload):
        os.makedirs(self.replays_dir, exist_ok=True)
        h = hashlib.sha256(json.dumps(payload, sort_keys=True).encode()).hexdigest()[:12]
        path = os.path.join(self.replays_dir, "%s-%s.json" % (re.sub(r"[^A-Za-z0-9_]", "_", name), h))
        with open(path, "w") as f:
            json.dump(payload, f, indent=1, sort_keys=True)
        return path

    def finish(self, level="model_checking", extra_cov=None, out_of_claim=None):
        wall = time.time() - self.t0
        n_pass = sum(1 for o in self.obs if o.verdict in ("pass",))
        n_known = sum(1 for o in self.obs if o.verdict == "known")
        incon = [o for o in self.obs if o.verdict in ("inconclusive", "vacuous", None)]
        samples = [o.to_json() for o in self.obs]
        cov = {
            "evaluations": len(self.obs),
            "distinct_nontrivial": sum(1 for o in self.obs if o.verdict in ("pass", "known") and
                                       (not o.covers or all(v == "SATISFIED" for v in o.covers.values()))),
            "rule": "one evaluation = one solver obligation (a Kani/CBMC harness over symbolic inputs, or an SMT query); "
                    "non-trivial = verdict reached AND every reachability witness (kani::cover!/sat side query) satisfied; "
                    "distinct by harness/query name",
            "samples": samples,
            "states": max(1, len(self.obs)),
            "transitions": max(1, sum(len(o.covers) for o in self.obs)),
            "traces_validated_against_impl": self.notes.get("validated", 0),
            "obligations": len(self.obs),
            "discharged": n_pass,
            "known_findings_matched": self.known_printed,
            "not_discharged": [o.name for o in incon],
            "solver_seconds_total": round(sum(o.seconds for o in self.obs), 1),
            "explanation": "states/transitions are not an explicit-state count: states = solver obligations, "
                           "transitions = reachability witnesses checked (bounded symbolic model checking has no state count)",
            "outside_claim": out_of_claim or [],
        }
        if extra_cov:
            cov.update(extra_cov)
        ev = {
            "property_id": self.pid,
            "tier": self.tier,
            "seed": self.seed,
            "level": level,
            "coverage": cov,
            "assumptions": self.assumptions,
            "wall_s": round(wall, 1),
            "violations": len(self.violations),
        }
        os.makedirs(os.path.join(VERIF, "evidence"), exist_ok=True)
        with open(os.path.join(VERIF, "evidence", self.pid + ".json"), "w") as f:
            json.dump(ev, f, indent=1)
        for k in self.known_printed:
            print("KNOWN-FINDING: property=%s %s" % (self.pid, k))
        for ob, path, what in self.violations:
            print("VIOLATION property=%s replay=%s" % (self.pid, path))
            print("  what: %s" % what)
        print("%s %s: %d obligations, %d discharged, %d known findings, %d inconclusive, %d violations, %.0fs"
              % (self.pid, self.tier, len(self.obs), n_pass, n_known, len(incon), len(self.violations), wall))
        if self.violations:
            return 1
        if incon:
            for o in incon:
                print("  INCONCLUSIVE %s: %s %s" % (o.name, o.verdict, o.detail[:300]))
            return 2
        if not self.obs:
            print("  no obligations ran")
            return 2
        return 0


# ---------------------------------------------------------------------------------------------
# Kani

KANI_TOOLCHAIN_NOTE = "Kani 0.68.0 / CBMC 6.11.0 / CaDiCaL, unwinding assertions on"


def rsync_repo(dst):
    os.makedirs(dst, exist_ok=True)
    for item in ("src", "Cargo.toml", "Cargo.lock"):
        s = os.path.join(REPO, item)
        d = os.path.join(dst, item)
        if os.path.isdir(s):
            shutil.copytree(s, d)
        else:
            shutil.copy2(s, d)


def parse_kani_output(out):
    """returns (status, failed labels, covers, time)"""
    failed = []
    covers = {}
    for m in re.finditer(r"Check \d+: ([^\n]+)\n\s+- Status: (\w+)\n\s+- Description: \"(.*?)\"\n(?:\s+- Location: (.*?)\n)?", out, re.S):
        name, status, desc, loc = m.group(1), m.group(2), m.group(3).strip('"'), m.group(4) or ""
        if ".cover." in name or name.endswith(".cover") or re.search(r"\.cover\.\d+$", name):
            key = desc
            if key.startswith("cover condition: "):
                key = key[len("cover condition: "):]
            # a cover may be instantiated several times (inlining); satisfied once is enough
            prev = covers.get(key)
            if prev != "SATISFIED":
                covers[key] = status
        elif status in ("FAILURE", "UNDETERMINED"):
            failed.append({"desc": desc[:200], "loc": loc.split(" in function")[0].strip(), "status": status, "check": name})
    # a failed unwinding assertion turns every other check UNDETERMINED: report the checks that actually failed
    if any(f["status"] == "FAILURE" for f in failed):
        failed = [f for f in failed if f["status"] == "FAILURE"]
    m = re.search(r"VERIFICATION:- (\w+)", out)
    status = m.group(1) if m else None
    tm = re.search(r"Verification Time: ([\d.]+)s", out)
    return status, failed, covers, float(tm.group(1)) if tm else None


class KaniCrate:
    """a scratch crate to run harnesses of"""

    def __init__(self, crate_dir, target_dir, kind, rustflags=""):
        self.dir = crate_dir
        self.target = target_dir
        self.kind = kind
        self.rustflags = rustflags
        self.built = False
        self.build_log = ""

    def env(self):
        e = dict(ENV)
        if self.rustflags:
            e["RUSTFLAGS"] = self.rustflags
        return e

    def build(self, timeout=1500):
        os.makedirs(self.target, exist_ok=True)
        rc, out, secs, to = sh(["cargo", "kani", "--only-codegen", "-Z", "stubbing", "--target-dir", self.target],
                               cwd=self.dir, timeout=timeout, env=self.env())
        self.build_log = out
        os.makedirs(os.path.join(CACHE, "logs"), exist_ok=True)
        with open(os.path.join(CACHE, "logs", "build-%s.log" % os.path.basename(self.target)), "w") as f:
            f.write(out)
        self.built = rc == 0
        self.build_seconds = secs
        return self.built

    def symtab(self, harness):
        """newest per-harness goto binary written by the last build"""
        import glob
        short = harness.split("::")[-1]
        cands = [f for f in glob.glob(os.path.join(self.target, "kani", "*", "debug", "build", "*", "*", "out", "*.symtab.out"))
                 if re.search(r"\d+%s\.symtab\.out$" % re.escape(short), f)]
        return max(cands, key=os.path.getmtime) if cands else None

    def unwindset(self, harness, rules):
        """rules: [(regex over pretty function names, bound)] -> `id:bound,...` for --unwindset (recursion ids are function ids,
        loop ids are <function id>.<n>; every loop 0..7 of a matching function is listed)"""
        f = self.symtab(harness)
        if not f:
            return None
        rc, out, _, _ = sh(["goto-instrument", "--list-goto-functions", f], timeout=120)
        entries = []
        for m in re.finditer(r"^(.*?) /\* (\S+?)[,\s]", out, re.M):
            pretty, mangled = m.group(1), m.group(2)
            for rule in rules:
                rx, bound = rule[0], rule[1]
                loop_bound = rule[2] if len(rule) > 2 else (bound if bound > 1 else None)
                if re.search(rx, pretty):
                    entries.append("%s:%d" % (mangled, bound))  # recursion bound
                    if loop_bound:
                        entries += ["%s.%d:%d" % (mangled, k, loop_bound) for k in range(4)]  # loops of that function
                    break
        for rule in rules:
            rx, bound = rule[0], rule[1]
            if rx == "^memcmp$":
                entries.append("memcmp.0:%d" % bound)
        return ",".join(sorted(set(entries))) if entries else None

    def run(self, harness, timeout, mem_gb=12, extra=None, cbmc_args=None, unwind_rules=None):
        cmd = ["cargo", "kani", "-Z", "stubbing", "--target-dir", self.target, "--harness", harness, "--exact"]
        if unwind_rules:
            us = self.unwindset(harness, unwind_rules)
            if us:
                cbmc_args = list(cbmc_args or []) + ["--unwindset", us]
        if extra:
            cmd += extra
        if cbmc_args:
            cmd += ["-Z", "unstable-options", "--cbmc-args"] + cbmc_args
        rc, out, secs, to = sh(cmd, cwd=self.dir, timeout=timeout, env=self.env(), mem_gb=mem_gb)
        return rc, out, secs, to


def run_harnesses(chk, crate, specs, logdir=None):
    """specs: list of dict(name=full harness path, timeout=, mem_gb=, extra=, cbmc_args=, info=dict)
    runs them in parallel; returns list of Ob with verdict pass/fail/inconclusive/vacuous and raw output kept in ob.log"""
    obs = []

    def one(spec):
        ob = Ob(spec["name"], crate.kind, **spec.get("info", {}))
        rc, out, secs, to = crate.run(spec["name"], spec.get("timeout", 120), spec.get("mem_gb", 12),
                                      spec.get("extra"), spec.get("cbmc_args"), spec.get("unwind_rules"))
        ob.seconds = secs
        ob.log = out
        status, failed, covers, vt = parse_kani_output(out)
        ob.covers = covers
        ob.failed = failed
        if vt is not None:
            ob.seconds = vt
        oom = "Out of memory" in out or "std::bad_alloc" in out or "memory exhausted" in out.lower() or "ran out of memory" in out
        if to:
            ob.verdict, ob.detail = "inconclusive", "timeout after %ds" % spec.get("timeout", 120)
        elif oom:
            ob.verdict, ob.detail = "inconclusive", "out of memory"
        elif status == "SUCCESSFUL" and not failed:
            bad = [k for k, v in covers.items() if v != "SATISFIED"]
            if bad:
                ob.verdict, ob.detail = "vacuous", "unsatisfied reachability witnesses: %s" % bad
            else:
                ob.verdict = "pass"
        elif status == "FAILED" and failed:
            ob.verdict = "fail"
        else:
            tail = "\n".join(out.strip().splitlines()[-15:])
            ob.verdict, ob.detail = "inconclusive", "no verdict (rc=%s): %s" % (rc, tail)
        return ob

    with cf.ThreadPoolExecutor(max_workers=NCPU) as ex:
        for ob in ex.map(one, specs):
            obs.append(ob)
            chk.add(ob)
    if logdir:
        os.makedirs(logdir, exist_ok=True)
        for ob in obs:
            with open(os.path.join(logdir, re.sub(r"[^A-Za-z0-9_]", "_", ob.name) + ".log"), "w") as f:
                f.write(ob.log or "")
    return obs


# concrete playback: re-run a failing harness natively with the solver's values --------------

def playback(crate, harness, timeout=1500, trace_cfg=True):
    """Ask Kani for the concrete counterexample of `harness`, insert it as a unit test and run it natively.
    returns dict(reproduced=bool, trace={k: v}, panic=str, test_src=str, log=str)"""
    res = dict(reproduced=False, trace={}, panic="", test_src="", log="")
    cmd = ["cargo", "kani", "-Z", "stubbing", "-Z", "concrete-playback", "--concrete-playback=print",
           "--target-dir", crate.target, "--harness", harness, "--exact"]
    rc, out, secs, to = sh(cmd, cwd=crate.dir, timeout=timeout, env=crate.env(), mem_gb=30)
    res["log"] = out[-4000:]
    tests = re.findall(r"```\n((?:/// Test generated for harness|#\[test\]).*?)```", out, re.S)
    # one test per failed check and per satisfied cover: replay the failed checks only
    tests = [t for t in tests if "Check for `cover`" not in t] or []
    if not tests:
        res["panic"] = "no concrete playback test produced" + (" (playback run timed out after %ds)" % timeout if to else "")
        return res
    short = harness.split("::")[-1]
    target_file = None
    for root, _, files in os.walk(os.path.join(crate.dir, "src")):
        for fn in files:
            if fn.endswith(".rs"):
                p = os.path.join(root, fn)
                txt = open(p, errors="replace").read()
                if re.search(r"(fn %s\s*\()|(!\s*[({]\s*%s\s*,)" % (re.escape(short), re.escape(short)), txt):
                    target_file = p
    if not target_file:
        res["panic"] = "harness source not found"
        return res
    marker = "// VERIF-PLAYBACK-INSERT"
    for test in tests[:3]:
        res["test_src"] = test
        tname = re.search(r"fn (kani_concrete_playback_\w+)", test).group(1)
        orig = open(target_file).read()
        if marker in orig:
            txt = orig.replace(marker, test + "\n" + marker, 1)
        else:
            txt = orig + "\n" + test + "\n"
        open(target_file, "w").write(txt)
        env = crate.env()
        env["RUSTFLAGS"] = (env.get("RUSTFLAGS", "") + " --cfg verif_playback").strip()
        cmd = ["cargo", "kani", "playback", "-Z", "concrete-playback", "--", tname, "--nocapture"]
        env["CARGO_TARGET_DIR"] = crate.target + "-playback"
        rc, out2, secs, to = sh(cmd, cwd=crate.dir, timeout=timeout, env=env)
        open(target_file, "w").write(orig)
        res["log"] += "\n--- playback %s ---\n" % tname + out2[-6000:]
        res["trace"] = {}
        for m in re.finditer(r"^TRACE (\w+)=(.*)$", out2, re.M):
            res["trace"][m.group(1)] = m.group(2).strip()
        pm = re.search(r"panicked at (.*?)(?:\nnote:|\nstack backtrace|\n\n|\Z)", out2, re.S)
        if pm and "test result: FAILED" in out2 and "concrete_playback.rs" not in pm.group(1):
            res["reproduced"] = True
            res["panic"] = " ".join(pm.group(1).split())[:300]
            m2 = re.search(r"Check for `\w+`: \"?(.*?)\"?\n", test)
            res["check"] = m2.group(1) if m2 else ""
            return res
    return res


# ---------------------------------------------------------------------------------------------
# native replay driver (real num-bigint, ordinary cargo build of /repo's current tree)

class Native:
    _inst = None

    def __init__(self, release=False):
        self.dir = scratch("native")
        rsync_repo(self.dir)
        os.makedirs(os.path.join(self.dir, "examples"))
        shutil.copy2(os.path.join(VERIF, "replay", "xr_run.rs"), os.path.join(self.dir, "examples", "xr_run.rs"))
        self.target = os.path.join(CACHE, "target-native")
        self.release = release
        self.bin = None
        self.log = ""

    @classmethod
    def get(cls):
        if cls._inst is None:
            cls._inst = Native()
            cls._inst.build()
        return cls._inst

    def build(self):
        cmd = ["cargo", "build", "--offline", "--example", "xr_run", "--target-dir", self.target]
        if self.release:
            cmd.append("--release")
        rc, out, secs, to = sh(cmd, cwd=self.dir, timeout=1500)
        self.log = out
        if rc != 0:
            raise RuntimeError("native build failed:\n" + out[-3000:])
        self.bin = os.path.join(self.target, "release" if self.release else "debug", "examples", "xr_run")
        return True

    def run(self, spec, timeout=60):
        p = subprocess.run([self.bin], input=json.dumps(spec), capture_output=True, text=True, timeout=timeout)
        line = p.stdout.strip().splitlines()[-1] if p.stdout.strip() else ""
        try:
            return json.loads(line)
        except Exception:
            return {"panic": "driver crashed rc=%s: %s" % (p.returncode, (p.stderr or "")[-500:]), "values": {}, "compile": "?"}


def replay_file(path):
    """re-run a saved replay artefact; prints what happens; returns 1 if the violation reproduces"""
    rp = json.load(open(path))
    if rp.get("kind") == "script":
        nat = Native.get()
        got = nat.run(rp["spec"])
        print(json.dumps(got, indent=1))
        exp = rp.get("expect", {})
        bad = False
        if got.get("panic"):
            bad = True
        for k, v in exp.items():
            if got.get("values", {}).get(k) != v:
                print("MISMATCH %s: expected %s got %s" % (k, v, got.get("values", {}).get(k)))
                bad = True
        print("REPRODUCED" if bad else "NOT REPRODUCED")
        return 1 if bad else 0
    print(json.dumps(rp, indent=1))
    print("replay artefact of kind %r: re-run `./check %s` to re-derive it" % (rp.get("kind"), rp.get("property")))
    return 0


class Inconclusive(Exception):
    pass


MAX_REPLAYS = int(os.environ.get("VERIF_MAX_REPLAYS", "3"))


def triage(chk, crate, obs, renderers=None, excl_factory=None):
    """Turn failing obligations into KNOWN-FINDING / VIOLATION / inconclusive.
    renderers: {harness short name: fn(trace, labels) -> dict(spec=.., check=fn(result)->str|None, what=str) or None}
    excl_factory: fn(cfgs) -> KaniCrate built with the exclusion cfgs (for the re-run after a known finding)"""
    renderers = renderers or {}
    rerun = []
    mixed = []
    for ob in obs:
        if ob.verdict != "fail":
            continue
        short = ob.name.split("::")[-1]
        labels = sorted({f["desc"] for f in ob.failed})
        unknown = [l for l in labels if not chk.known_for(short, l)]
        if not unknown:
            ob.verdict = "known"
            cfgs = []
            for l in labels:
                k = chk.known_for(short, l)
                line = "harness=%s label=%r %s" % (short, k.get("label"), k["what"])
                if line not in chk.known_printed:
                    chk.known_printed.append(line)
                if k.get("exclude_cfg"):
                    cfgs.append(k["exclude_cfg"])
            ob.info["known_finding_labels"] = labels
            if cfgs:
                rerun.append((ob, sorted(set(cfgs))))
            continue
        if len(chk.violations) >= MAX_REPLAYS:
            ob.detail = "fails %s; not replayed (replay cap %d reached, exit code is already 1)" % (unknown, MAX_REPLAYS)
            continue
        kcfgs = sorted({chk.known_for(short, l)["exclude_cfg"] for l in labels
                        if chk.known_for(short, l) and chk.known_for(short, l).get("exclude_cfg")})
        if kcfgs and excl_factory:
            # an unlisted failure next to a listed one: look for the counterexample with the listed classes excluded, so that
            # the replay shows the unlisted violation and not the recorded input
            mixed.append((ob, labels, unknown, kcfgs))
            continue
        confirm_violation(chk, crate, ob, labels, unknown, renderers)
    if mixed:
        cfgs = sorted({c for m in mixed for c in m[3]} | {c for _, cs in rerun for c in cs})
        crate2 = excl_factory(cfgs)
        built = crate2.build()
        for ob, labels, unknown, _ in mixed:
            done = False
            if built:
                spec = dict(name=ob.name, timeout=ob.info.get("timeout", 300), info=dict(ob.info, rerun_excluding=cfgs),
                            cbmc_args=ob.info.get("cbmc_args"), extra=ob.info.get("extra"))
                for ob2 in run_harnesses(chk, crate2, [spec]):
                    ob2.name = ob2.name + " [known finding classes excluded]"
                    if ob2.verdict == "fail":
                        l2 = sorted({f["desc"] for f in ob2.failed})
                        confirm_violation(chk, crate2, ob2, l2, l2, renderers, harness=ob2.name.split(" ")[0])
                        ob.verdict = "known"
                        ob.info["known_finding_labels"] = [l for l in labels if l not in unknown]
                        for l in ob.info["known_finding_labels"]:
                            k = chk.known_for(ob.name.split("::")[-1], l)
                            line = "harness=%s label=%r %s" % (ob.name.split("::")[-1], k.get("label"), k["what"])
                            if line not in chk.known_printed:
                                chk.known_printed.append(line)
                        ob.detail = "also fails unlisted checks %s: decided by the re-run with the listed classes excluded" % unknown
                        done = ob2.verdict == "fail"
            if not done:
                confirm_violation(chk, crate, ob, labels, unknown, renderers)
    if rerun and excl_factory:
        cfgs = sorted({c for _, cs in rerun for c in cs})
        crate2 = excl_factory(cfgs)
        if not crate2.build():
            raise Inconclusive("exclusion build failed:\n" + crate2.build_log[-2000:])
        specs = []
        for ob, _ in rerun:
            specs.append(dict(name=ob.name, timeout=ob.info.get("timeout", 300), info=dict(ob.info, rerun_excluding=cfgs),
                              cbmc_args=ob.info.get("cbmc_args"), extra=ob.info.get("extra")))
        chk2obs = run_harnesses(chk, crate2, specs)
        for ob2 in chk2obs:
            ob2.name = ob2.name + " [known finding classes excluded]"
            if ob2.verdict == "fail":
                labels = sorted({f["desc"] for f in ob2.failed})
                confirm_violation(chk, crate2, ob2, labels, labels, renderers, harness=ob2.name.split(" ")[0])


def confirm_violation(chk, crate, ob, labels, unknown, renderers, harness=None):
    harness = harness or ob.name
    short = harness.split("::")[-1]
    pb = playback(crate, harness)
    ob.info["playback"] = dict(reproduced=pb["reproduced"], panic=pb["panic"], trace=pb["trace"])
    if not pb["reproduced"]:
        ob.verdict = "inconclusive"
        ob.detail = "solver counterexample for %s did not reproduce natively (%s)" % (unknown, pb["panic"] or "no panic")
        ob.info["playback_log"] = pb["log"][-1500:]
        return
    what = "%s: failed checks %s; native playback of the solver's values panics: %s; inputs %s" % (
        short, unknown, pb["panic"], pb["trace"])
    payload = dict(kind="kani-playback", property=chk.pid, harness=harness, failed_checks=labels, trace=pb["trace"],
                   panic=pb["panic"], test=pb["test_src"])
    rend = renderers.get(short)
    if rend:
        r = rend(pb["trace"], labels)
        if r:
            nat = Native.get()
            got = nat.run(r["spec"])
            problem = r["check"](got)
            if problem:
                payload = dict(kind="script", property=chk.pid, harness=harness, spec=r["spec"], expect=r.get("expect", {}),
                               observed=got, problem=problem, failed_checks=labels, trace=pb["trace"])
                what = "%s: %s (script: %s)" % (short, problem, r["spec"]["source"])
            else:
                ob.verdict = "inconclusive"
                ob.detail = "counterexample %s reproduces on the model build but not on the real interpreter (script %r gave %s)" % (
                    pb["trace"], r["spec"]["source"], got.get("values"))
                return
    path = chk.save_replay(short, payload)
    ob.verdict = "fail"
    chk.violations.append((ob, path, what))
