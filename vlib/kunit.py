"""K-unit engine: leaf files of /repo/src copied unmodified into a scratch copy of /verif/kani/unit."""
import os
import re
import shutil

from . import core

LEAVES = {
    "lazy_bigint.rs": "src/util/lazy_bigint.rs",
    "forward_err.rs": "src/util/forward_err.rs",
    "trysort.rs": "src/util/trysort.rs",
    "try_heap.rs": "src/util/try_heap.rs",
    "fenced_string.rs": "src/util/fenced_string.rs",
    "ipush.rs": "src/util/ipush.rs",
    "permissions.rs": "src/permissions.rs",
    "builtin_permissions.rs": "src/builtin/builtin_permissions.rs",
    "xformatter.rs": "src/util/xformatter.rs",
    "str_parts.rs": "src/util/str_parts.rs",
    "multieither.rs": "src/util/multieither.rs",
    "means.rs": "src/util/means.rs",
    "units.rs": "src/units.rs",
    "try_extend.rs": "src/util/try_extend.rs",
}

ASSUMPTIONS = [
    "K-unit: leaf source files are compiled unmodified (byte-identical copies of /repo's working tree, hashes in samples) "
    "into the harness crate /verif/kani/unit; private items are reached through a module appended to the copy",
    "num-bigint/num-rational are replaced by the bounded exact i128 model in /verif/kani/models "
    "(every operation checked; results outside i128 are cut with kani::assume(false)); claims hold for |values| < 2^100 operands",
    "crate::xvalue::XResult / crate::runtime_violation::RuntimeViolation are provided by a shim of identical shape in the harness crate root",
    core.KANI_TOOLCHAIN_NOTE,
]


def prepare(chk, appends=None, rustflags=""):
    """returns KaniCrate for the K-unit scratch copy.  appends: {leaf file: text appended to the copy}"""
    d = core.scratch("kunit")
    crate = os.path.join(d, "unit")
    shutil.copytree(os.path.join(core.VERIF, "kani", "unit"), crate, ignore=shutil.ignore_patterns("target", "real", "appends"))
    real = os.path.join(crate, "src", "real")
    os.makedirs(real, exist_ok=True)
    hashes = {}
    for leaf, rel in LEAVES.items():
        src = os.path.join(core.REPO, rel)
        if not os.path.exists(src):
            continue
        shutil.copy2(src, os.path.join(real, leaf))
        hashes[rel] = core.sha(src)
    app_dir = os.path.join(core.VERIF, "kani", "unit", "appends")
    appends = dict(appends or {})
    for fn in sorted(os.listdir(app_dir)) if os.path.isdir(app_dir) else []:
        appends[fn] = appends.get(fn, "") + open(os.path.join(app_dir, fn)).read()
    for leaf, text in appends.items():
        with open(os.path.join(real, leaf), "a") as f:
            f.write("\n" + text + "\n")
    # derived copy of xformatter.rs without its regex-dependent constructor (text cut, see C19)
    xf = os.path.join(real, "xformatter.rs")
    if os.path.exists(xf):
        txt = open(xf).read()
        open(os.path.join(real, "xformatter_noregex.rs"), "w").write(strip_regex_items(txt))
    # derived copy of permissions.rs whose `use std::collections::HashMap;` is redirected to a finite-map model
    # (hashbrown's SIMD probing + SipHash do not finish in CBMC even on concrete keys)
    pm = os.path.join(real, "permissions.rs")
    if os.path.exists(pm):
        txt = open(pm).read()
        if txt.count("use std::collections::HashMap;") != 1:
            raise core.Inconclusive("permissions.rs: HashMap import line not found")
        open(os.path.join(real, "permissions_mapmodel.rs"), "w").write(txt.replace("use std::collections::HashMap;", "use crate::mapmodel::HashMap;"))
    from . import slices
    kc_slices = slices.generate(real)
    open(os.path.join(real, "builtin_mod.rs"), "w").write('#[path = "builtin_permissions.rs"]\npub mod builtin_permissions;\n')
    cargo = os.path.join(crate, "Cargo.toml")
    txt = open(cargo).read().replace("../models", os.path.join(core.VERIF, "kani", "models"))
    open(cargo, "w").write(txt)
    kc = core.KaniCrate(crate, os.path.join(core.CACHE, "target-unit"), "K-unit (Kani/CBMC)", rustflags)
    kc.hashes = hashes
    kc.slices = kc_slices
    return kc


def strip_regex_items(txt):
    """remove `use regex::Regex;` and every fn whose body mentions Regex/lazy_static (brace matched)"""
    txt = txt.replace("use regex::Regex;", "")
    out = []
    i = 0
    # remove lazy_static! blocks
    while True:
        m = re.search(r"lazy_static!\s*\{", txt[i:])
        if not m:
            out.append(txt[i:])
            break
        s = i + m.start()
        out.append(txt[i:s])
        j = i + m.end()
        depth = 1
        while depth:
            c = txt[j]
            depth += c == "{"
            depth -= c == "}"
            j += 1
        i = j
    txt = "".join(out)
    # remove fns mentioning Regex / regex statics
    res = []
    i = 0
    for m in re.finditer(r"(?m)^([ \t]*)(pub(\([a-z]+\))? )?fn \w+", txt):
        pass
    pat = re.compile(r"(?m)^[ \t]*(?:pub(?:\([a-z]+\))? )?fn (\w+)")
    pos = 0
    pieces = []
    while True:
        m = pat.search(txt, pos)
        if not m:
            pieces.append(txt[pos:])
            break
        b = txt.index("{", m.end())
        j = b + 1
        depth = 1
        while depth:
            c = txt[j]
            depth += c == "{"
            depth -= c == "}"
            j += 1
        body = txt[m.start():j]
        if re.search(r"Regex|_RE\b|RE\.|captures", body):
            pieces.append(txt[pos:m.start()])
            pieces.append("    // verif: fn %s removed from this copy (uses the regex crate)\n" % m.group(1))
        else:
            pieces.append(txt[pos:j])
        pos = j
    return "".join(pieces)
