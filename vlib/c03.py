"""C03 — lexical scoping, closures, one-time defaults (narrowed).
X-smt: distinct identifiers never alias in the interner.  K-crate: capture cell creation and runtime capture resolution."""
from . import core, intern_q, kcrate

OUT = [
    "name lookup through parents (get_item), forward-reference gating, closures escaping through builtins, one-time evaluation of defaults",
    "anything needing a compiled program; identifiers longer than 14 characters",
]


def run(chk):
    tmo = 120 if chk.tier == "quick" else 900
    if not chk.only or any("intern" in o for o in chk.only):
        intern_q.injective(chk, tmo)
    return kcrate.run(chk, [("runtime_scope.rs", "c03_"), ("compilation_scope.rs", "c03_")], out=OUT)
