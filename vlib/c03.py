"""C03 — lexical scoping, closures, one-time defaults (narrowed)."""
from . import kcrate

OUT = [
    "name lookup through parents (HashMap-keyed get_item), forward-reference gating, closures escaping through builtins",
    "anything needing a compiled program",
]


def run(chk):
    return kcrate.run(chk, [("runtime_scope.rs", "c03_"), ("compilation_scope.rs", "c03_")], out=OUT)
