"""C01 — accepted programs never go wrong (narrowed): parameter/default indexing, call typing."""
from . import kcrate

OUT = [
    "whole-program soundness over generated programs (parser + interner + evaluator on symbolic programs)",
    "every soundness rule not named in the harnesses; `value has the shape of its static type`",
]


def run(chk):
    return kcrate.run(chk, [("runtime_scope.rs", "c01_"), ("compilation_scope.rs", "c01_")], out=OUT)
