"""setup: warm the dependency caches (Kani K-unit, native replay driver) from files on disk only."""
import os
import sys

from . import core


def main():
    os.makedirs(core.CACHE, exist_ok=True)
    ok = True
    try:
        from . import kunit
        chk = core.Check("setup", "quick", 0)
        kc = kunit.prepare(chk)
        if not kc.build():
            print(kc.build_log[-3000:])
            ok = False
        print("K-unit codegen: %s (%.0fs)" % (kc.built, kc.build_seconds))
    except Exception as e:  # noqa
        print("K-unit setup failed: %r" % e)
        ok = False
    try:
        from . import kcrate
        chk = core.Check("setup", "quick", 0)
        kc = kcrate.prepare(chk)
        if not kc.build():
            print(kc.build_log[-3000:])
            ok = False
        print("K-crate codegen: %s (%.0fs)" % (kc.built, kc.build_seconds))
    except Exception as e:  # noqa
        print("K-crate setup failed: %r" % e)
        ok = False
    try:
        nat = core.Native.get()
        print("native replay driver: %s" % nat.bin)
    except Exception as e:  # noqa
        print("native setup failed: %r" % e)
        ok = False
    return 0 if ok else 1
