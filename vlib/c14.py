"""C14 — integers are exact at every magnitude.
K-unit: every LazyBigint operation of the real src/util/lazy_bigint.rs against exact i128 arithmetic."""
import os
import re

from . import core, kunit

OUT = [
    "operands or results with |v| >= 2^100 (model bound; 2^127 hard cut)",
    "symbolic x symbolic multiplication/division: the second operand of mul/div/rem ranges over constant tables "
    "(quick: +-1, +-2, +-2^k for k in 8..63; thorough adds -7..10 and 1000003), the first is fully symbolic; with the "
    "non-power-of-two divisors (thorough) Short dividends are restricted to 32 bits (CBMC's 64-bit divider does not finish)",
    "text conversion (to_str/from_str_radix/format) and Long/Long true division (model not faithful); num-bigint's own limb code",
    "factorial/binomial/multinomial/digits natives beyond what the K-crate tier reaches",
]


def harness_names(src, prefix):
    names = re.findall(r"#\[kani::proof\](?:\s*#\[[^\]]*\])*\s*fn (%s\w*)" % prefix, src)
    names += re.findall(r"table_harness!\((%s\w*)," % prefix, src)  # also matches narrow_table_harness!
    return sorted(set(names))


def lit(v):
    v = int(v)
    return "(-%d)" % -v if v < 0 else str(v)


def floor_div(a, b):
    return a // b


def renderers():
    """script-level replay on the real interpreter (real num-bigint) for counterexamples of the operator harnesses"""
    def binop(op, fn, guard=None):
        def r(trace, labels):
            if "a" not in trace or ("b" not in trace and "c" not in trace):
                return None
            a = int(trace["a"])
            b = int(trace.get("b", trace.get("c")))
            if guard and not guard(a, b):
                return None
            exp = fn(a, b)
            src = "let r = %s %s %s;" % (lit(a), op, lit(b))
            spec = dict(source=src, bindings=["r"])
            want = {"r": {"int": str(exp)}}

            def check(got):
                if got.get("panic"):
                    return "interpreter panicked on `%s`: %s" % (src, got["panic"])
                if got.get("compile") != "ok":
                    return None
                if got["values"].get("r") != want["r"]:
                    return "`%s` evaluated to %s, exact result is %s" % (src, got["values"].get("r"), exp)
                return None
            return dict(spec=spec, check=check, expect=want)
        return r
    import math
    def tdiv(a, b):
        q = abs(a) // abs(b)
        return q if (a < 0) == (b < 0) else -q
    mulr = binop("*", lambda a, b: a * b)
    def mul_assign(trace, labels):
        # MulAssign is only reachable from scripts through binom/multinom: render the Short*=Long fallback as binom
        return None
    def divrem(trace, labels):
        if any("rem" in l for l in labels):
            return binop("%", lambda a, b: a % b, lambda a, b: b != 0)(trace, labels)
        if any("div_floor" in l for l in labels):
            a, b = int(trace["a"]), int(trace.get("b", trace.get("c")))
            src = "let r = div_floor(%s, %s);" % (lit(a), lit(b))
            want = {"r": {"int": str(a // b)}}
            def check(got):
                if got.get("panic"):
                    return "interpreter panicked on `%s`: %s" % (src, got["panic"])
                if got.get("compile") == "ok" and got["values"].get("r") != want["r"]:
                    return "`%s` evaluated to %s, exact result is %s" % (src, got["values"].get("r"), a // b)
            return dict(spec=dict(source=src, bindings=["r"]), check=check, expect=want)
        return None
    return {
        "c14_add": binop("+", lambda a, b: a + b),
        "c14_sub": binop("-", lambda a, b: a - b),
        **{"c14_mul_" + t: mulr for t in ("unit", "small", "mid", "pow2", "pow2b", "odd")},
        **{"c14_%s_%s" % (o, t): divrem for o in ("rem_ref", "rem_owned", "div_floor") for t in ("unit", "small", "mid", "pow2", "pow2b", "odd")},
        "c14_small_dividend_rem_ref": divrem, "c14_small_dividend_rem_owned": divrem, "c14_small_dividend_div_floor": divrem,
        "c14_pow_small": binop("**", lambda a, b: a ** b),
    }


def run(chk):
    src = open(os.path.join(core.VERIF, "kani", "unit", "src", "h", "c14.rs")).read()
    names = harness_names(src, "c14_")
    if chk.tier == "quick":
        names = [n for n in names if not re.search(r"_(mid|small|odd)$", n)]
    if chk.only:
        names = [n for n in names if any(o in n for o in chk.only)]
    crate = kunit.prepare(chk)
    chk.assumptions += kunit.ASSUMPTIONS
    if not crate.build():
        raise core.Inconclusive("K-unit build failed:\n" + crate.build_log[-3000:])
    tmo = 600 if chk.tier == "quick" else 2400
    lit_src = open(os.path.join(core.VERIF, "kani", "unit", "src", "h", "c12.rs")).read()
    lit_names = [n for n in harness_names(lit_src, "c14_") if not chk.only or any(o in n for o in chk.only)]
    specs = [dict(name="h::c12::" + n, timeout=tmo, info=dict(
        functions_encoded="src/parser.rs `Rule::NUMBER_ANY` arm (verbatim slice, sha256 %s)" % crate.slices.get("number_any", {}).get("sha256"),
        bounds="39-digit decimal literals around i128::MAX (last 3 digits symbolic); std float parser and str::contains stubbed", timeout=tmo))
        for n in lit_names]
    specs += [dict(name="h::c14::" + n, timeout=tmo,
                  info=dict(functions_encoded="src/util/lazy_bigint.rs (sha256 %s)" % crate.hashes.get("src/util/lazy_bigint.rs"),
                            bounds="operands: arbitrary canonical LazyBigint, |v| < 2^100; default unwind unless the harness states one",
                            timeout=tmo)) for n in names]
    obs = core.run_harnesses(chk, crate, specs, logdir=os.path.join(core.CACHE, "logs", "C14"))
    rend = {k: v for k, v in renderers().items() if v}

    def lit_replay(trace, labels):
        lit = trace.get("literal", "").strip('"')
        if not lit:
            return None
        src_ = "let x = %s;" % lit
        spec = dict(source=src_, bindings=["x"])

        def check(got):
            if got.get("panic"):
                return "compiler panicked on `%s`: %s" % (src_, got["panic"])
            v = got.get("values", {}).get("x", {})
            if got.get("compile") == "ok" and v.get("int") != str(int(lit)):
                return "integer literal `%s` was compiled to %s" % (lit, v)
            return None
        return dict(spec=spec, check=check)
    rend["c14_decimal_literal"] = lit_replay
    core.triage(chk, crate, obs, rend, excl_factory=lambda cfgs: kunit.prepare(chk, rustflags=" ".join("--cfg " + c for c in cfgs)))
    prelude_queries(chk)
    return chk.finish(out_of_claim=OUT)


# ---------------------------------------------------------------------------------------------------------------
# X-smt part: the prelude's abs / sign / gcd / lcm (xray-language source in include.rs) against their definitions

def prelude_queries(chk):
    from . import xsmt_common as xc
    from .xsmt_common import xr2smt
    try:
        src, fns, structs = xr2smt.load(core.REPO)
    except xr2smt.Unsupported as e:
        raise core.Inconclusive("prelude translator: %s" % e)
    T = xr2smt.Enc.t
    B = 10 if chk.tier == "quick" else 24
    qs = []

    def call(enc, name, *vals):
        env = {"a%d" % i: v for i, v in enumerate(vals)}
        return enc.call(name, [("var", "a%d" % i) for i in range(len(vals))], env, "true", 0, [])
    decl = ["(declare-const a Int)", "(declare-const b Int)"]
    rng = ["(and (>= a %s) (<= a %d) (>= b %s) (<= b %d))" % (T(-B), B, T(-B), B)]
    enc = xr2smt.Enc(fns, structs, rec_bound=14)
    ab = call(enc, "abs", "a")
    sg = call(enc, "sign", "a")
    qs.append(xc.Q("c14_prelude_abs_sign", enc, decl, rng,
                   "(and (= %s (ite (>= a 0) a (- a))) (= %s (ite (> a 0) 1 (ite (< a 0) (- 1) 0))))" % (T(ab), T(sg)),
                   "|a| <= %d" % B, "include.rs: abs, sign"))
    enc = xr2smt.Enc(fns, structs, rec_bound=8 if chk.tier == "quick" else 10)
    g = call(enc, "gcd", "a", "b")
    # g is the gcd: non-negative, divides both (witness quotients), and no larger common divisor up to the bound
    no_larger = " ".join("(not (and (> %d %s) (= (mod a %d) 0) (= (mod b %d) 0)))" % (d, T(g), d, d) for d in range(2, B + 1))
    prop = ("(and (>= {g} 0) (=> (and (= a 0) (= b 0)) (= {g} 0)) (=> (not (and (= a 0) (= b 0))) (and (> {g} 0) (= (mod a {g}) 0) (= (mod b {g}) 0) {nl})))"
            .format(g=T(g), nl=no_larger))
    qs.append(xc.Q("c14_prelude_gcd", enc, decl, rng, prop, "|a|, |b| <= %d, recursion unrolled 8 (quick) / 10 (thorough) levels (deeper paths excluded and counted)" % B,
                   "include.rs: gcd (helper), abs"))

    enc = xr2smt.Enc(fns, structs, rec_bound=8 if chk.tier == "quick" else 10)
    lc = call(enc, "lcm", "a", "b")
    g2 = call(enc, "gcd", "a", "b")
    # lcm * gcd = |a*b| and lcm >= 0 (operands not both zero: the book documents lcm(0,0) separately)
    qs.append(xc.Q("c14_prelude_lcm", enc, decl, rng + ["(not (and (= a 0) (= b 0)))"],
                   "(and (>= {l} 0) (= (* {l} {g}) (ite (>= (* a b) 0) (* a b) (- (* a b)))))".format(l=T(lc), g=T(g2)),
                   "|a|, |b| <= %d, not both zero" % B, "include.rs: lcm, gcd, abs"))

    def replay_gcd(model):
        a, b = model.get("a"), model.get("b")
        import math
        lit = lambda v: "(-%d)" % -v if v < 0 else str(v)  # noqa
        s = "let g = gcd(%s, %s); let s = sign(%s); let m = abs(%s); let l = lcm(%s, %s);" % (lit(a), lit(b), lit(a), lit(a), lit(a), lit(b))
        spec = dict(source=s, bindings=["g", "s", "m", "l"])
        got = core.Native.get().run(spec)
        if got.get("panic"):
            return spec, "interpreter panicked: %s" % got["panic"]
        v = got.get("values", {})
        if v.get("g") != {"int": str(math.gcd(a, b))}:
            return spec, "gcd(%d, %d) = %s, expected %d" % (a, b, v.get("g"), math.gcd(a, b))
        want_l = abs(a * b) // math.gcd(a, b) if (a or b) else 0
        if v.get("l") != {"int": str(want_l)}:
            return spec, "lcm(%d, %d) = %s, expected %d" % (a, b, v.get("l"), want_l)
        if v.get("m") != {"int": str(abs(a))} or v.get("s") != {"int": str((a > 0) - (a < 0))}:
            return spec, "abs/sign(%d) = %s / %s" % (a, v.get("m"), v.get("s"))
        return spec, None
    tmo = 120 if chk.tier == "quick" else 900
    for q in qs:
        if chk.only and not any(o in q.name for o in chk.only):
            continue
        ob = xc.discharge(chk, q, tmo, replay_gcd)
        ob.info["recursion_bound_paths_excluded"] = len(q.enc.bound_hit)
    chk.assumptions += [a for a in xc.ASSUMPTIONS if a not in chk.assumptions]
