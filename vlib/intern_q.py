"""interner queries shared by C03 (distinct identifiers never alias) and C12 (the compiler is total on identifiers)"""
import os
import sys
import time

from . import core, smt

sys.path.insert(0, os.path.join(core.VERIF, "xsmt"))
import intern2smt  # noqa

ASSUMPTION = ("X-smt (interner): the regex literal and the index handling (parse().unwrap() vs .ok(), upper cap constant) are read from "
              "src/util/special_prefix_interner.rs and the CNAME rule from src/xray.pest on every run; the model of `intern` is "
              "`special iff the pattern matches; symbol = Item(int of group 1)`; strings up to the stated length; z3, z3 5.1 and cvc5 (two must answer)")


def run_query(chk, name, script, bounds, timeout, replay):
    ob = core.Ob(name, "X-smt (z3 + cvc5, QF_SLIA)", functions_encoded="src/util/special_prefix_interner.rs: RE, intern; src/xray.pest: CNAME", bounds=bounds)
    t0 = time.time()
    r = smt.decide(script, timeout)
    ob.seconds = time.time() - t0
    ob.info["solvers"] = r["per_solver"]
    if r["verdict"] == "unsat":
        ob.verdict = "pass"
    elif r["verdict"] == "sat":
        ob.info["model"] = r["model"]
        ob.failed = [{"desc": name, "loc": "special_prefix_interner.rs", "status": "FAILURE", "check": "smt"}]
        spec, problem = replay(r["model"])
        k = chk.known_for(name, None)
        if problem and k:
            ob.verdict = "known"
            chk.known_printed.append("query=%s %s" % (name, k["what"]))
        elif problem:
            ob.verdict = "fail"
            path = chk.save_replay(name, dict(kind="script", property=chk.pid, spec=spec, model=r["model"], problem=problem, query=name))
            chk.violations.append((ob, path, "%s: %s" % (name, problem)))
        else:
            ob.verdict = "inconclusive"
            ob.detail = "solver model %s does not reproduce on the real interpreter" % r["model"]
    else:
        ob.verdict = "inconclusive"
        ob.detail = str(r.get("detail"))
    chk.add(ob)
    return ob


def model():
    try:
        return intern2smt.read_model(core.REPO)
    except intern2smt.Unsupported as e:
        raise core.Inconclusive("interner translator: %s" % e)


def injective(chk, timeout):
    m = model()

    def replay(mod):
        s1, s2 = mod.get("s1"), mod.get("s2")
        if not s1 or not s2:
            return None, None
        src = "let %s = 1; let %s = 2; let z = %s;" % (s1, s2, s1)
        spec = dict(source=src, bindings=["z"])
        got = core.Native.get().run(spec)
        if got.get("panic"):
            return spec, "compiler/interpreter panicked on %r: %s" % (src, got["panic"])
        if got.get("compile") == "ok" and got["values"].get("z") != {"int": "1"}:
            return spec, "identifiers %s and %s alias: `%s` gives z = %s" % (s1, s2, src, got["values"].get("z"))
        if got.get("compile") != "ok":
            return spec, "identifiers %s and %s alias: `%s` is rejected: %s" % (s1, s2, src, got.get("compile")[:120])
        return spec, None
    chk.assumptions.append(ASSUMPTION)
    return run_query(chk, "intern_injective", intern2smt.query_injective(m), "identifiers (CNAME) of <= 14 characters; model %s" % m, timeout, replay)


def total(chk, timeout):
    m = model()

    def replay(mod):
        s1 = mod.get("s1")
        if not s1:
            return None, None
        src = "let %s = 1;" % s1
        spec = dict(source=src, bindings=[s1])
        got = core.Native.get().run(spec, timeout=20)
        if got.get("panic"):
            return spec, "compiler panicked on `%s`: %s" % (src, got["panic"])
        return spec, None
    chk.assumptions.append(ASSUMPTION)
    return run_query(chk, "intern_total", intern2smt.query_total(m), "identifiers (CNAME) of <= 40 characters; model %s" % m, timeout, replay)
