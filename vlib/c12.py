"""C12 — compilation is total, effect-free and deterministic (narrowed).
K-unit: the numeric-literal arm of parse_expr (verbatim source slice) on symbolic literal text.  X-smt: the interner is total."""
import os
import re

from . import core, intern_q, kunit

OUT = [
    "the pest parser, regex-based escape processing and CompilationError rendering (not encodable); purity/determinism of whole compilations",
    "literals longer than 33 hex / 40 decimal digits, binary literals, literals with `_` separators or a fractional part",
    "std's float parser is stubbed (returns any float or an error): witnesses that depend on its value are replayed on the real compiler before they are reported",
]


def lit_replay(kind):
    def r(trace, labels):
        lit = trace.get("literal", "").strip('"')
        if not lit:
            return None
        src = "let x = %s;" % lit
        spec = dict(source=src, bindings=["x"])

        def check(got):
            if got.get("panic"):
                return "compiler panicked on `%s`: %s" % (src, got["panic"])
            v = got.get("values", {}).get("x", {})
            if kind == "int" and got.get("compile") == "ok" and "int" not in v:
                return "integer literal `%s` was compiled to %s" % (lit, v)
            if kind == "int" and got.get("compile") == "ok" and int(v["int"]) != int(lit, 0):
                return "integer literal `%s` has value %s" % (lit, v)
            if kind == "float" and got.get("compile") == "ok" and v.get("finite") is False:
                return "float literal `%s` is %s" % (lit, v)
            return None
        return dict(spec=spec, check=check)
    return r


def run(chk):
    tmo = 300 if chk.tier == "quick" else 1800
    if not chk.only or any("intern" in o for o in chk.only):
        intern_q.total(chk, 120 if chk.tier == "quick" else 900)
    crate = kunit.prepare(chk)
    chk.assumptions += kunit.ASSUMPTIONS + [
        "slice: the body of the `Rule::NUMBER_ANY` arm of parser.rs is copied verbatim into a shim environment "
        "(/verif/kani/unit/slices/number_any.rs) on every run; `<f64 as FromStr>::from_str` is stubbed by `any float or Err`"]
    if not crate.build():
        raise core.Inconclusive("K-unit build failed:\n" + crate.build_log[-3000:])
    src = open(os.path.join(core.VERIF, "kani/unit/src/h/c12.rs")).read()
    names = ["h::c12::" + n for n in re.findall(r"#\[kani::proof\](?:\s*#\[[^\]]*\])*\s*fn (c12_\w*)", src)]
    if chk.only:
        names = [n for n in names if any(o in n for o in chk.only)]
    sl = crate.slices.get("number_any", {})
    obs = core.run_harnesses(chk, crate, [dict(name=n, timeout=tmo, info=dict(
        functions_encoded="src/parser.rs `Rule::NUMBER_ANY` arm (slice sha256 %s, %s lines) + core::num / str parsing" % (sl.get("sha256"), sl.get("lines")),
        timeout=tmo, bounds="0x + <= 33 symbolic hex digits; <= 40 symbolic decimal digits")) for n in names],
        logdir=os.path.join(core.CACHE, "logs", "C12"))
    rend = {"c12_hex_literal": lit_replay("int")}
    core.triage(chk, crate, obs, rend, excl_factory=lambda cfgs: kunit.prepare(chk, rustflags=" ".join("--cfg " + c for c in cfgs)))
    return chk.finish(out_of_claim=OUT)
