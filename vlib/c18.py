"""C18 — strings are code-point sequences (narrowed).  K-unit on the real fenced_string.rs: representation invariant and
len/substr/substring/concatenation/eq/cmp on a shape table x symbolic indices."""
import os
import re

from . import core, kunit

OUT = [
    "strings longer than 3 characters or outside the shape table (every sequence of UTF-8 width classes up to length 3, plus 6 case-mapping troublemakers)",
    "case mapping itself (std's Unicode tables cannot be walked by CBMC); after the fix to_lowercase/to_uppercase rebuild the table with from_str, which is decided",
    "literal forms and escapes (pest + regex), format_replace (regex), prelude string functions (split, partition, strip, replace, reverse, repeat)",
    "the str natives of str.rs (get, find, rfind, substring, code_point) beyond the FencedString kernel they call",
]


def run(chk):
    crate = kunit.prepare(chk)
    chk.assumptions += kunit.ASSUMPTIONS
    if not crate.build():
        raise core.Inconclusive("K-unit build failed:\n" + crate.build_log[-3000:])
    src = open(os.path.join(core.VERIF, "kani/unit/appends/fenced_string.rs")).read()
    ns = re.findall(r"#\[kani::proof\](?:\s*#\[[^\]]*\])*\s*fn (c18_\w*)", src) + re.findall(r"_harness!\((c18_\w*),", src) + re.findall(r"shape_one!\((c18_\w*),", src)
    names = ["fenced_string::verif_kani::" + n for n in sorted(set(ns))]
    if chk.tier == "quick":
        names = [n for n in names if not n.endswith("_t")]
    if chk.only:
        names = [n for n in names if any(o in n for o in chk.only)]
    tmo = 400 if chk.tier == "quick" else 3000
    files = "src/util/fenced_string.rs (sha256 %s)" % crate.hashes.get("src/util/fenced_string.rs")
    specs = [dict(name=n, timeout=tmo, mem_gb=12 if chk.tier == "quick" else 28, info=dict(functions_encoded=files, timeout=tmo,
                                                   bounds="shape table (UTF-8 width classes, length <= 3) x symbolic start/end indices 0..len+2; unwind 14"))
             for n in names]
    obs = core.run_harnesses(chk, crate, specs, logdir=os.path.join(core.CACHE, "logs", "C18"))
    core.triage(chk, crate, obs, {})
    return chk.finish(out_of_claim=OUT)
