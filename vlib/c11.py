"""C11 — side effects only with permission.  K-unit: permission lookup; K-crate: check_permission and every effectful
native called with recording doubles for writer / clock / rng."""
import os
import re

from . import core, kcrate, kunit

OUT = [
    "paths through prelude wrappers and lazily evaluated sequences (the guard is inside the native, which is what is checked)",
    "the granted branch of sleep and regex (FFI / regex compilation are not encodable); they are asserted on the denied branch only",
    "std HashMap inside PermissionSet is replaced by a finite-map model in the K-unit lookup harness (hashbrown does not finish in CBMC)",
]


def run(chk):
    # K-unit part
    crate = kunit.prepare(chk)
    chk.assumptions += kunit.ASSUMPTIONS + ["permissions.rs is compiled with `use std::collections::HashMap` redirected to an association-list model"]
    if not crate.build():
        raise core.Inconclusive("K-unit build failed:\n" + crate.build_log[-3000:])
    src = open(os.path.join(core.VERIF, "kani/unit/src/h/c11.rs")).read()
    names = ["h::c11::" + n for n in re.findall(r"#\[kani::proof\](?:\s*#\[[^\]]*\])*\s*fn (c11_\w*)", src)]
    if chk.only:
        names = [n for n in names if any(o in n for o in chk.only)]
    tmo = 300 if chk.tier == "quick" else 1800
    files = "src/permissions.rs (sha256 %s), src/builtin/builtin_permissions.rs (sha256 %s)" % (
        crate.hashes.get("src/permissions.rs"), crate.hashes.get("src/builtin/builtin_permissions.rs"))
    obs = core.run_harnesses(chk, crate, [dict(name=n, timeout=tmo, info=dict(functions_encoded=files, timeout=tmo,
                             bounds="<= 3 symbolic allow/forbid writes over the six permissions, symbolic query")) for n in names],
                             logdir=os.path.join(core.CACHE, "logs", "C11"))
    core.triage(chk, crate, obs, {})
    # K-crate part
    return kcrate.run(chk, [("runtime.rs", "c11_"), ("builtin__generic.rs", "c11_"), ("builtin__datetime.rs", "c11_"),
                            ("builtin__sequence.rs", "c11_"), ("builtin__regex.rs", "c11_"), ("builtin__cont_distributions.rs", "c11_"),
                            ("builtin__disc_distributions.rs", "c11_")], out=OUT)
