"""C11 — side effects only with permission.  K-crate: permission lookup + every effectful native with recording doubles."""
from . import kcrate

OUT = [
    "paths through prelude wrappers and lazily evaluated sequences (the guard is inside the native, which is what is checked)",
    "the granted branch of sleep and regex (FFI / regex compilation are not encodable); they are asserted on the denied branch only",
]


def run(chk):
    return kcrate.run(chk, [("runtime.rs", "c11_"), ("builtin__generic.rs", "c11_"), ("builtin__datetime.rs", "c11_"),
                            ("builtin__sequence.rs", "c11_"), ("builtin__regex.rs", "c11_")], out=OUT)
