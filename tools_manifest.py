#!/usr/bin/env python3
"""regenerates MANIFEST.json from the table below (keeps it valid at all times)"""
import json

K = "Kani 0.68 / CBMC 6.11 bounded model checking of the real source (unwinding assertions on)"
S = "SMT (z3 4.8.12, z3 5.1, cvc5 1.0) over a translation of the real xray-language source"
CHECKS = {
    "C14": dict(
        engine="K-unit",
        technique="bounded model checking (Kani/CBMC) of src/util/lazy_bigint.rs against exact i128 arithmetic",
        text="Every LazyBigint operation (add, sub, mul, mul_assign, neg, abs, signum, cmp/eq, rem, div, div_floor, div_ceil, bit ops, pow, "
             "conversions, hash key, range) is decided by CBMC for ALL canonical operands with |v| < 2^100 (second operand of "
             "multiplicative operations from constant tables): result equals the exact integer and is canonical. A counterexample is "
             "replayed natively and, where a renderer exists, as an xray script on the unmodified interpreter before it is reported.",
        note="Trusted: the i128 model of num-bigint (/verif/kani/models), Kani/CBMC/CaDiCaL. Outside: |v| >= 2^100, symbolic x symbolic "
             "products/quotients, text conversion, num-bigint's limb code, int natives of int.rs beyond the operators.",
        ref="DESIGN.md 4 C14"),
    "C09": dict(
        engine="K-crate",
        technique="bounded model checking (Kani/CBMC) of one allocate/drop step from an arbitrary accounted state (inductive step)",
        text="Runtime::allocate/deallocate, ManagedXError/ManagedXValue::new and Drop, can_allocate/can_allocate_by are decided from an "
             "ARBITRARY pre-state (accounted size s <= L < 2^62 symbolic): Ok implies s+n <= L and accounted = s+n, drop returns exactly n, "
             "a refused allocation leaves s unchanged, pre-flight is Err iff s+n > L and monotone in L. One step from any balanced state "
             "covers histories of any length.",
        note="Trusted: Kani/CBMC, the bigint model, RandomState stub. Outside: balance over whole evaluator runs, drops of compound values "
             "(recursive drop glue not explorable), dyn_size of containers, L >= 2^62.",
        ref="DESIGN.md 4 C09"),
    "C08": dict(
        engine="K-crate + slices",
        technique="bounded model checking (Kani/CBMC) of the limit counters with symbolic limit and symbolic pre-state",
        text="User-call counter (increment/reset from an arbitrary pre-count, 4 steps with symbolic resets): the i-th call since the last "
             "reset fails iff i >= L, for every L. Search budget: exactly min(n, L) elements then MaximumSearch, L <= 5. Unlimited never fails.",
        note="Trusted: Kani/CBMC. Outside: counting of calls made by higher-order builtins into user functions, time-limit exactness, L > 5 for search.",
        ref="DESIGN.md 4 C08"),
    "C20": dict(
        engine="X-smt",
        technique="SMT (QF_LIA, division lemma encoding) over the prelude's own source text, z3 + cvc5 cross-checked",
        text="The prelude functions date, julian_day, weekday, datetime, unix are translated from include.rs on every run and the round "
             "trips are decided for ALL Julian days 0..3*10^6 (10^7 thorough), all valid Gregorian dates of years -4000..8000, all integral "
             "Unix seconds -10^10..10^11; sat models are replayed as scripts on the real interpreter; the translator is validated against "
             "the interpreter on seeded inputs each run.",
        note="Trusted: the translator (/verif/xsmt/xr2smt.py, validated per run), z3/cvc5, floored int mod (C14) and the float-division "
             "lemma. Outside: JSON, radix text conversion, fractions, fractional seconds, negative Julian days.",
        ref="DESIGN.md 4 C20"),
}
NA = {
    "C02": "needs the pest parser and whole-program evaluation against a reference evaluator; neither can be encoded for CBMC/SMT here (DESIGN.md 4 C02)",
}
PENDING = ["C01", "C03", "C04", "C05", "C06", "C07", "C10", "C11", "C12", "C13", "C15", "C16", "C17", "C18", "C19"]


def main():
    checks = []
    for pid in sorted(CHECKS):
        c = CHECKS[pid]
        checks.append({
            "property_id": pid,
            "quick_cmd": "./check %s --tier quick" % pid,
            "thorough_cmd": "./check %s --tier thorough" % pid,
            "evidence_file": "/verif/evidence/%s.json" % pid,
            "replay_cmd_template": "./check %s --replay {path}" % pid,
            "engine": c["engine"],
            "level_claimed": {"category": "model_checking", "text": c["text"], "design_ref": c["ref"]},
            "level_note": c["note"],
            "technique": c["technique"],
        })
    na = [{"property_id": k, "reason": v} for k, v in sorted(NA.items())]
    for p in PENDING:
        if p not in CHECKS and p not in NA:
            na.append({"property_id": p, "reason": "check under construction in this session: not claimed until its harnesses are discharged on the unchanged tree"})
    m = {
        "version": 1,
        "setup_cmd": "./check setup",
        "hooks": {
            "guard": "cfg(kani)",
            "enable": "no source hooks in /repo: harness modules are appended to scratch copies of /repo's working tree and compiled by `cargo kani` (which sets cfg(kani)); X-smt reads the source text",
            "baseline_off_cmd": "cd /repo && cargo test --workspace --no-fail-fast --offline",
            "source_commits": [],
            "add_only": True,
        },
        "engines": [
            {"name": "K-unit", "path": "/verif/kani/unit", "serves_properties": ["C14", "C18", "C19"], "kind_free_text": K + "; leaf files compiled unmodified against an i128 model of num-bigint"},
            {"name": "K-crate", "path": "/verif/kani/crate", "serves_properties": ["C01", "C03", "C06", "C08", "C09", "C10", "C11", "C13", "C15", "C16"], "kind_free_text": K + "; whole crate, harness modules appended to scratch copies"},
            {"name": "X-smt", "path": "/verif/xsmt", "serves_properties": ["C20", "C14", "C03", "C12"], "kind_free_text": S},
        ],
        "checks": checks,
        "not_applicable": sorted(na, key=lambda x: x["property_id"]),
        "notes": "exit 0 = all obligations discharged and non-vacuous; 1 = reproduced violation; 2 = inconclusive (timeout/OOM/build failure/non-reproducing counterexample). See DESIGN.md.",
    }
    json.dump(m, open("/verif/MANIFEST.json", "w"), indent=1)
    print("MANIFEST.json: %d checks, %d not applicable" % (len(checks), len(na)))


if __name__ == "__main__":
    main()
