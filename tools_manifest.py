#!/usr/bin/env python3
"""regenerates MANIFEST.json from the table below (keeps it valid at all times)"""
import json

K = "Kani 0.68 / CBMC 6.11 bounded model checking of the real source (unwinding assertions on)"
S = "SMT (z3 4.8.12, z3 5.1, cvc5 1.0) over a translation of the real xray-language source"
CHECKS = {
    "C14": dict(
        engine="K-unit",
        technique="bounded model checking (Kani/CBMC) of src/util/lazy_bigint.rs against exact i128 arithmetic",
        text="Every LazyBigint operation (add, sub, mul, mul_assign, neg, abs, signum, cmp/eq, rem, div, div_floor, div_ceil, bit ops, pow, "
             "conversions, hash key, range) is decided by CBMC for ALL canonical operands with |v| < 2^100 (second operand of "
             "multiplicative operations from constant tables): result equals the exact integer and is canonical. A counterexample is "
             "replayed natively and, where a renderer exists, as an xray script on the unmodified interpreter before it is reported.",
        note="Trusted: the i128 model of num-bigint (/verif/kani/models), Kani/CBMC/CaDiCaL. Outside: |v| >= 2^100, symbolic x symbolic "
             "products/quotients, text conversion, num-bigint's limb code, int natives of int.rs beyond the operators.",
        ref="DESIGN.md 4 C14"),
    "C09": dict(
        engine="K-crate",
        technique="bounded model checking (Kani/CBMC) of one allocate/drop step from an arbitrary accounted state (inductive step)",
        text="Runtime::allocate/deallocate, ManagedXError/ManagedXValue::new and Drop, can_allocate/can_allocate_by are decided from an "
             "ARBITRARY pre-state (accounted size s <= L < 2^62 symbolic): Ok implies s+n <= L and accounted = s+n, drop returns exactly n, "
             "a refused allocation leaves s unchanged, pre-flight is Err iff s+n > L and monotone in L. One step from any balanced state "
             "covers histories of any length.",
        note="Trusted: Kani/CBMC, the bigint model, RandomState stub. Outside: balance over whole evaluator runs, drops of compound values "
             "(recursive drop glue not explorable), dyn_size of containers, L >= 2^62.",
        ref="DESIGN.md 4 C09"),
    "C08": dict(
        engine="K-crate + slices",
        technique="bounded model checking (Kani/CBMC) of the limit counters with symbolic limit and symbolic pre-state",
        text="User-call counter (increment/reset from an arbitrary pre-count, 4 steps with symbolic resets): the i-th call since the last "
             "reset fails iff i >= L, for every L. Search budget: exactly min(n, L) elements then MaximumSearch, L <= 5. Unlimited never fails.",
        note="Trusted: Kani/CBMC. Outside: counting of calls made by higher-order builtins into user functions, time-limit exactness, L > 5 for search.",
        ref="DESIGN.md 4 C08"),
    "C20": dict(
        engine="X-smt",
        technique="SMT (QF_LIA, division lemma encoding) over the prelude's own source text, z3 + cvc5 cross-checked",
        text="The prelude functions date, julian_day, weekday, datetime, unix are translated from include.rs on every run and the round "
             "trips are decided for ALL Julian days 0..3*10^6 (10^7 thorough), all valid Gregorian dates of years -4000..8000, all integral "
             "Unix seconds -10^10..10^11; sat models are replayed as scripts on the real interpreter; the translator is validated against "
             "the interpreter on seeded inputs each run.",
        note="Trusted: the translator (/verif/xsmt/xr2smt.py, validated per run), z3/cvc5, floored int mod (C14) and the float-division "
             "lemma. Outside: JSON, radix text conversion, fractions, fractional seconds, negative Julian days.",
        ref="DESIGN.md 4 C20"),
}
CHECKS.update({
    "C07": dict(
        engine="K-unit slice + K-crate",
        technique="bounded model checking (Kani/CBMC) of a verbatim source slice of the trampoline in a scripted symbolic environment; natives with a recording evaluator",
        text="The body of the `XFunction::UserFunction` arm of eval_func_with_values (the tail-call trampoline) is copied verbatim from "
             "runtime_scope.rs on every run and executed by CBMC against a scripted environment: for every script of <= 5 symbolic steps "
             "(tail call / value / violation) and every recursion limit L <= 3 the result is the scripted value iff at most L consecutive tail "
             "calls occurred, else MaximumRecursion after exactly L+1; at most one frame is ever live; call counter and deadline are checked "
             "once before the first frame; each frame receives the previous tail call's arguments. The short-circuit natives (if, if_error, "
             "and, or) are decided to hand the caller's tail flag to the selected branch only (K-crate, recording evaluator).",
        note="Trusted: Kani/CBMC, the shim environment of the slice (/verif/kani/unit/slices/trampoline.rs). Outside: tail-position "
             "detection in eval's Call arm, equivalence with ordinary recursion for real bodies, scripts > 5 steps, L > 3.",
        ref="DESIGN.md 4 C07"),
    "C11": dict(
        engine="K-unit + K-crate",
        technique="bounded model checking (Kani/CBMC): permission lookup on symbolic write sequences; effectful natives with recording writer/clock/rng doubles",
        text="PermissionSet get/allow/forbid for every sequence of <= 3 symbolic writes over the six permissions (all 64 assignments) equals "
             "`last write or documented default`; check_permission names the permission; the natives debug, __std_unix_now, __std_sleep, "
             "regex are called through their real registration with a symbolic permission and recording doubles: denied => "
             "PermissionError(<that id>) and writer, clock and rng untouched; granted => exactly one write / one clock read.",
        note="Trusted: Kani/CBMC; std HashMap replaced by an association-list model; stubs listed in the evidence. Outside: display (dyn "
             "factory), sample natives, granted branch of sleep/regex (FFI / regex compilation), prelude wrappers and lazy sequences.",
        ref="DESIGN.md 4 C11"),
    "C12": dict(
        engine="K-unit slice + X-smt",
        technique="bounded model checking (Kani/CBMC) of the numeric-literal arm of the parser (verbatim slice) on symbolic literal text; SMT (QF_SLIA) totality of the interner",
        text="The `Rule::NUMBER_ANY` arm of parse_expr is copied verbatim on every run and decided on all 33-digit hex literals (leading "
             "zeros cover shorter ones): no crash, exact value; the interner's index handling is decided total on all identifiers <= 40 "
             "characters (no parse unwrap, no unbounded table). One recorded finding: hex literals above i128::MAX panic the compiler.",
        note="Trusted: Kani/CBMC, z3/cvc5, the slice's shim environment, stubs for std's float parser and str::contains. Outside: the pest "
             "parser, escapes (regex), error rendering, determinism of whole compilations, binary literals, separators.",
        ref="DESIGN.md 4 C12"),
    "C13": dict(
        engine="K-crate + K-unit slice",
        technique="bounded model checking (Kani/CBMC) of the checked float constructor over all 2^64 bit patterns and of float natives through their real registration",
        text="XValue::float yields a Float only for finite inputs (all bit patterns); add/sub/mul/div/neg natives yield the IEEE result when "
             "finite and an error value otherwise (add/sub: both operands symbolic; mul/div: second operand from a constant table, mul fully "
             "symbolic in thorough); "
             "int.to_float yields finite-or-error for ANY answer of num-bigint's to_f64 (stubbed by contract). One recorded finding: the "
             "literal 1e999 compiles to Float(inf).",
        note="Trusted: Kani/CBMC's IEEE-754 encoding; stubs listed in evidence. Outside: libm/statrs functions (all return through the "
             "checked constructor), float mod (a harness runs, but CBMC's remainder model never yields the NaN of `inf % b`: the seeded "
             "change C13-agent1 is missed), division with both operands symbolic (does not finish), JSON numbers, prelude helpers.",
        ref="DESIGN.md 4 C13"),
    "C18": dict(
        engine="K-unit",
        technique="bounded model checking (Kani/CBMC) of src/util/fenced_string.rs on a shape table x symbolic indices",
        text="For every string of a table covering all sequences of UTF-8 width classes up to length 2 (quick; 3 in thorough) plus case-mapping "
             "troublemakers, and ALL slice bounds a <= len, b <= len+2, end present or not: from_string establishes the representation "
             "invariant, len counts code points, substr/substring return exactly the code points a..b with a correct table; concatenation "
             "and push_ascii keep the invariant; eq/cmp follow the text.",
        note="Trusted: Kani/CBMC. Outside: strings outside the table / longer than 3 characters, case mapping tables of std, literal "
             "forms and escapes, prelude string functions, the str natives beyond the FencedString kernel.",
        ref="DESIGN.md 4 C18"),
    "C19": dict(
        engine="K-unit",
        technique="bounded model checking (Kani/CBMC) of src/util/trysort.rs and try_heap.rs with a comparator that fails at a symbolic call",
        text="try_sort on 3-4 (quick) / 4-6 (thorough) elements with symbolic 2-bit keys: sorted, stable, a permutation; when the "
             "comparator fails at ANY call index (error value or violation) that failure is returned and the slice is still a permutation "
             "of the input. insert_head on <= 5 elements likewise. TryHeap push/pop of <= 4 elements: pops ordered, nothing lost or duplicated.",
        note="Trusted: Kani/CBMC (pointer checks on for the unsafe code). Outside: `merge` (CBMC models its symbolic-length copy imprecisely: "
             "removed, see DESIGN 5b), slices > 6, derived eq/cmp/hash factories, formatting.",
        ref="DESIGN.md 4 C19"),
    "C03": dict(
        engine="X-smt",
        technique="SMT (QF_SLIA) injectivity of the identifier interner, with regex literal, index handling and grammar rule read from source",
        text="The interner's regex literal, index handling and the CNAME grammar rule are read from source on every run: no two distinct "
             "identifiers of <= 14 characters intern to the same symbol (two of z3 4.8.12, z3 5.1, cvc5 must answer unsat); a sat model is "
             "replayed as a script on the real interpreter.",
        note="Trusted: z3/cvc5, the 40-line regex-to-SMT converter. Outside: everything else in the property - name lookup through "
             "parents, capture cells and their runtime resolution (K-crate harnesses exist but do not finish), forward-reference gating, "
             "one-time defaults, closures through builtins.",
        ref="DESIGN.md 4 C03"),
})
CHECKS.update({
    "C06": dict(
        engine="K-crate",
        technique="bounded model checking (Kani/CBMC) of the error-handling and short-circuit natives through their real registration with a recording evaluator",
        text="The natives if, if_error, is_error, and, or are obtained from their real add_* functions and called with every combination of "
             "value / error-value arguments and tail flag; a recording stub of eval observes which arguments are evaluated, in which order "
             "and with which tail flag: an error condition / first operand propagates and nothing else is evaluated; only the selected "
             "branch is evaluated, exactly once; is_error inspects without propagating; the documented short circuits skip their argument.",
        note="Trusted: Kani/CBMC and the stubs listed in the evidence (restricted evaluator, registration capture, leak-instead-of-drop). "
             "Outside: propagation through user-function calls and construction inside RuntimeScope::eval, violations through generator "
             "adaptors, collection insertion natives (sequences behind Rc<dyn> are not explorable), message-filtered handlers.",
        ref="DESIGN.md 9"),
    "C15": dict(
        engine="K-crate",
        technique="bounded model checking (Kani/CBMC) of XSequence::len/get on Range and of index normalisation, on local (not Rc'd) representations",
        text="For ALL i64 start/end and steps from {1, 2, 7, -1, -3, i64::MAX}: len(Range) = ceil(distance/|step|) without overflow and "
             "Range[i] = start + i*step; value_to_idx for arrays of <= 3 elements and the infinite Count with an ARBITRARY integer index "
             "(Short or Long, |v| < 2^100): the normalised index or an error value, never a crash.",
        note="Trusted: Kani/CBMC, bigint model. Outside: every representation behind Rc<dyn XNativeValue> (Map, Zip, Chain, Slice), the "
             "natives that receive sequences as values (get, push, insert, pop, set, swap...), prelude functions, sort.",
        ref="DESIGN.md 9"),
    "C16": dict(
        engine="K-crate + K-unit slice",
        technique="bounded model checking (Kani/CBMC) of XGenerator::slice's merge arithmetic on symbolic windows and of the Slice iterator arm (verbatim slice)",
        text="take/skip on generators are built from two pieces, both decided: (1) XGenerator::slice applied to a plain generator or to an "
             "existing Slice with ANY windows/amounts <= 1000 yields a Slice flattened onto the source whose window is exactly the one the "
             "pipeline denotes; (2) the iterator arm of Slice(gen, start, end), copied verbatim from generators.rs, yields exactly elements "
             "start..min(end, len) of the inner stream, identically on two consumptions, for inner streams <= 6.",
        note="Trusted: Kani/CBMC, the slice's shim environment. Outside: the take/skip natives and public consumption paths themselves "
             "(generators behind Rc<dyn> are not explorable), all adaptors with user functions, chain/zip/product, laziness.",
        ref="DESIGN.md 9"),
})
CHECKS.update({
    "C17": dict(
        engine="K-unit slice",
        technique="bounded model checking (Kani/CBMC) of a verbatim source slice of XMapping's bucket-table kernel with symbolic user hash/equality tables",
        text="`enum KeyLocation` and the functions locate, get, try_put_located, put_located, put, try_put, new of `impl XMapping` are copied "
             "verbatim from src/builtin/mapping.rs on every run. Over a universe of 3 keys with SYMBOLIC equality classes and a SYMBOLIC i64 hash "
             "per class (any hash that agrees with the equality: injective to constant, in or out of range): after every history of 2 (quick) / 3 "
             "(thorough) puts with read-modify-write closures, lookup of a symbolic probe key finds exactly the stored classes with the value an "
             "association list holds, len is the number of stored classes, and the version cloned before the last put is unchanged; when the "
             "user's hash or equality fails at ANY call (error value or violation) or the hash is out of range, put returns exactly that "
             "failure, calls nothing afterwards, and the mapping is unchanged.",
        note="Trusted: Kani/CBMC and the shim environment (/verif/kani/unit/slices/mapping_kernel.rs): std HashMap and Vec are replaced by "
             "fixed-capacity models with the same contract (3 slots; overflow is a tripwire), the evaluator by symbolic tables. Outside: the "
             "mapping natives themselves (Rc<dyn XNativeValue> is not explorable), removal (the pop rebuild is sliced but its harness does not "
             "finish: `_x`), bulk update, set.rs, the helpers written in the language, histories > 3, universes > 3 keys.",
        ref="DESIGN.md 9.8"),
})
NA = {
    "C01": "whole-program soundness needs the parser and the evaluator on symbolic programs; the local kernels (parameter binding in from_template, call typing) sit inside functions whose error paths drop half-built scopes/values, whose recursive drop glue CBMC does not finish (DESIGN.md 9.2); panics of natives found on the way are reported and fixed under the property whose harness reached them",
    "C04": "bind_in_assignment / common_type were encoded (kani/crate/xtype.rs: reference relation over a symbolic universe of depth-2 types) but no harness finished within 2400 s even with the HashMap model and per-function recursion bounds: every arm of the recursive type functions is explored at every level (DESIGN.md 9.2); two defects found while writing the oracle were repaired (7baede9, a60a111)",
    "C05": "resolve_overload lives in CompilationScope (scope tables, XExpr construction, dynamic factories): harnesses through it do not finish; its ranking part was extracted as a verbatim slice (kani/unit/slices/overload_rank.rs, harnesses c05_*_x) but the slice's own Vec pushes with symbolic counts exhaust the SAT encoder (20 GB); a documented-order defect found while writing the oracle was repaired (4c73af4)",
    "C10": "bounded work of whole builtins/pipelines needs the natives that iterate sequences/generators behind Rc<dyn XNativeValue>, which CBMC does not finish (DESIGN.md 9.2); the search budget itself is decided under C08",
    "C02": "needs the pest parser and whole-program evaluation against a reference evaluator; neither can be encoded for CBMC/SMT here (DESIGN.md 4 C02)",
}
PENDING = []


def main():
    checks = []
    for pid in sorted(CHECKS):
        c = CHECKS[pid]
        checks.append({
            "property_id": pid,
            "quick_cmd": "./check %s --tier quick" % pid,
            "thorough_cmd": "./check %s --tier thorough" % pid,
            "evidence_file": "/verif/evidence/%s.json" % pid,
            "replay_cmd_template": "./check %s --replay {path}" % pid,
            "engine": c["engine"],
            "level_claimed": {"category": "model_checking", "text": c["text"], "design_ref": c["ref"]},
            "level_note": c["note"],
            "technique": c["technique"],
        })
    na = [{"property_id": k, "reason": v} for k, v in sorted(NA.items())]
    for p in PENDING:
        if p not in CHECKS and p not in NA:
            na.append({"property_id": p, "reason": "check under construction in this session: not claimed until its harnesses are discharged on the unchanged tree"})
    m = {
        "version": 1,
        "setup_cmd": "./check setup",
        "hooks": {
            "guard": "cfg(kani)",
            "enable": "no source hooks in /repo: harness modules are appended to scratch copies of /repo's working tree and compiled by `cargo kani` (which sets cfg(kani)); X-smt reads the source text",
            "baseline_off_cmd": "cd /repo && cargo test --workspace --no-fail-fast --offline",
            "source_commits": [],
            "add_only": True,
        },
        "engines": [
            {"name": "K-unit", "path": "/verif/kani/unit", "serves_properties": ["C07", "C08", "C11", "C12", "C14", "C16", "C17", "C18", "C19"], "kind_free_text": K + "; leaf files compiled unmodified against an i128 model of num-bigint"},
            {"name": "K-crate", "path": "/verif/kani/crate", "serves_properties": ["C01", "C03", "C06", "C08", "C09", "C10", "C11", "C13", "C15", "C16"], "kind_free_text": K + "; whole crate, harness modules appended to scratch copies"},
            {"name": "X-smt", "path": "/verif/xsmt", "serves_properties": ["C20", "C14", "C03", "C12"], "kind_free_text": S},
        ],
        "checks": checks,
        "not_applicable": sorted(na, key=lambda x: x["property_id"]),
        "notes": "exit 0 = all obligations discharged and non-vacuous; 1 = reproduced violation; 2 = inconclusive (timeout/OOM/build failure/non-reproducing counterexample). See DESIGN.md.",
    }
    json.dump(m, open("/verif/MANIFEST.json", "w"), indent=1)
    print("MANIFEST.json: %d checks, %d not applicable" % (len(checks), len(na)))


if __name__ == "__main__":
    main()
