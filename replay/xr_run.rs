//! Native replay driver (copied into <scratch repo>/examples/ by /verif/check).
//! stdin: one JSON object {source, bindings:[..], limits:{..}, allow:[..], forbid:[..], now}
//! stdout: one JSON object {compile, violation, panic, values:{name: rendering}, stdout, clock_reads, size_after_drop}
use rand::rngs::StdRng;
use serde_json::{json, Value};
use std::cell::Cell;
use std::io::{Read, Write};
use std::panic::{catch_unwind, AssertUnwindSafe};
use std::rc::Rc;
use std::time::Duration;
use xray::builtin::builtin_permissions as bp;
use xray::permissions::PermissionSet;
use xray::root_runtime_scope::RootEvaluationScope;
use xray::runtime::{RTCell, RuntimeLimits};
use xray::std_compilation_scope;
use xray::time_provider::TimeProvider;
use xray::xvalue::XValue;

struct RecWriter(Rc<std::cell::RefCell<Vec<u8>>>);
impl Write for RecWriter {
    fn write(&mut self, buf: &[u8]) -> std::io::Result<usize> {
        self.0.borrow_mut().extend_from_slice(buf);
        Ok(buf.len())
    }
    fn flush(&mut self) -> std::io::Result<()> {
        Ok(())
    }
}
struct RecClock(Rc<Cell<usize>>, f64);
impl TimeProvider for RecClock {
    fn unix_now(&self) -> f64 {
        self.0.set(self.0.get() + 1);
        self.1
    }
}

fn render<W, R, T>(v: &XValue<W, R, T>) -> Value {
    match v {
        XValue::Int(i) => json!({"int": i.to_string()}),
        XValue::Float(f) => json!({"float": format!("{f:?}"), "finite": f.is_finite()}),
        XValue::String(s) => json!({"str": s.to_string()}),
        XValue::Bool(b) => json!({"bool": b}),
        XValue::StructInstance(items) => json!({"struct": items.iter().map(|i| render(&i.value)).collect::<Vec<_>>()}),
        other => json!({"other": format!("{other:?}")}),
    }
}

fn main() {
    let mut input = String::new();
    std::io::stdin().read_to_string(&mut input).unwrap();
    let spec: Value = serde_json::from_str(&input).unwrap();
    let source = spec["source"].as_str().unwrap().to_string();
    let bindings: Vec<String> = spec["bindings"].as_array().map(|a| a.iter().map(|s| s.as_str().unwrap().to_string()).collect()).unwrap_or_default();
    let lim = &spec["limits"];
    let us = |k: &str| lim[k].as_u64().map(|v| v as usize);
    let mut perms = PermissionSet::default();
    let table = [("now", bp::NOW), ("print", bp::PRINT), ("print_debug", bp::PRINT_DEBUG), ("random", bp::RANDOM), ("regex", bp::REGEX), ("sleep", bp::SLEEP)];
    for (n, p) in table.iter() {
        if spec["allow"].as_array().map_or(false, |a| a.iter().any(|x| x.as_str() == Some(n))) {
            perms.allow(p);
        }
        if spec["forbid"].as_array().map_or(false, |a| a.iter().any(|x| x.as_str() == Some(n))) {
            perms.forbid(p);
        }
    }
    let limits = RuntimeLimits {
        size_limit: us("size_limit"),
        depth_limit: us("depth_limit"),
        recursion_limit: us("recursion_limit"),
        ud_call_limit: us("ud_call_limit"),
        maximum_search: us("maximum_search"),
        time_limit: lim["time_limit_ms"].as_u64().map(Duration::from_millis),
        permissions: perms,
    };
    let out = Rc::new(std::cell::RefCell::new(Vec::new()));
    let clock = Rc::new(Cell::new(0usize));
    let mut result = json!({"compile": "ok", "violation": null, "panic": null, "values": {}});
    std::panic::set_hook(Box::new(|_| {}));
    let r = catch_unwind(AssertUnwindSafe(|| {
        let mut res = json!({});
        let mut root = std_compilation_scope();
        if let Err(e) = root.feed_file(&source) {
            res["compile"] = json!(format!("{e}"));
            return res;
        }
        res["compile"] = json!("ok");
        let runtime: RTCell<_, StdRng, _> = limits.to_runtime(RecWriter(out.clone()), RecClock(clock.clone(), spec["now"].as_f64().unwrap_or(1.0e9)));
        {
            let es = match RootEvaluationScope::from_compilation_scope(&root, runtime.clone()) {
                Ok(s) => s,
                Err(v) => {
                    res["violation"] = json!(format!("{v:?}"));
                    return res;
                }
            };
            let mut vals = serde_json::Map::new();
            for n in &bindings {
                let v = match es.get_value(n) {
                    Ok(Ok(v)) => render(&v.value),
                    Ok(Err(e)) => json!({"error": e.error.clone()}),
                    Err(e) => json!({"missing": format!("{e:?}")}),
                };
                vals.insert(n.clone(), v);
            }
            if let Some(call) = spec["call"].as_str() {
                match es.get_user_defined_function(call) {
                    Ok(f) => match es.run_function(f, vec![]) {
                        Ok(t) => match t.unwrap_value() {
                            Ok(v) => { vals.insert(format!("{call}()"), render(&v.value)); }
                            Err(e) => { vals.insert(format!("{call}()"), json!({"error": e.error.clone()})); }
                        },
                        Err(v) => { res["call_violation"] = json!(format!("{v:?}")); }
                    },
                    Err(e) => { res["call_violation"] = json!(format!("lookup: {e:?}")); }
                }
            }
            res["values"] = Value::Object(vals);
        }
        res
    }));
    match r {
        Ok(res) => {
            for (k, v) in res.as_object().unwrap() {
                result[k] = v.clone();
            }
        }
        Err(p) => {
            let msg = p.downcast_ref::<String>().cloned().or_else(|| p.downcast_ref::<&str>().map(|s| s.to_string())).unwrap_or_else(|| "panic".into());
            result["panic"] = json!(msg);
        }
    }
    result["stdout"] = json!(String::from_utf8_lossy(&out.borrow()).to_string());
    result["clock_reads"] = json!(clock.get());
    println!("{}", result);
}
