#!/bin/bash
# usage: tools_seed_run.sh <seed dir under /verif/seeded> <check id> [tier]: applies the seeded change to /repo, runs the check, undoes it
SEED=$1; PID=$2; TIER=${3:-quick}
cd /repo || exit 2
if [ -n "$(git status --short -- src)" ]; then echo "/repo has local changes, refusing"; exit 2; fi
git apply $SEED/patch.diff || { echo "patch does not apply"; exit 2; }
cp /verif/evidence/$PID.json /verif/evidence/.$PID.json.clean 2>/dev/null
cd /verif && ./check $PID --tier $TIER > $SEED/check_$PID.log 2>&1; rc=$?
cp /verif/evidence/$PID.json $SEED/evidence_$PID.json 2>/dev/null
# the evidence file of the registered check describes the unchanged tree: put the clean-tree one back
mv /verif/evidence/.$PID.json.clean /verif/evidence/$PID.json 2>/dev/null
git -C /repo checkout -- . 
echo "check $PID on seed $(basename $SEED): exit $rc"; grep -E "^VIOLATION|^KNOWN|what:|INCONCLUSIVE" $SEED/check_$PID.log | cut -c1-400 | head -8; tail -n 1 $SEED/check_$PID.log
