// appended to the copy of src/util/fenced_string.rs — C18: representation invariant and code-point semantics.
// Strings come from a fixed table of concrete literals covering every sequence of UTF-8 width classes of length <= 3
// (1/2/3/4-byte: 1 + 4 + 16 + 64 shapes) plus case-mapping troublemakers; what the solver quantifies over is the
// indices and lengths.  (Building strings from symbolic chars does not finish: DESIGN.md 6.)
#[cfg(kani)]
mod verif_kani {
    use super::*;
    const SHAPES: [&str; 85] = [
    "",
    "a",
    "\u{e9}",
    "\u{20ac}",
    "\u{1f600}",
    "aa",
    "a\u{e9}",
    "a\u{20ac}",
    "a\u{1f600}",
    "\u{e9}a",
    "\u{e9}\u{e9}",
    "\u{e9}\u{20ac}",
    "\u{e9}\u{1f600}",
    "\u{20ac}a",
    "\u{20ac}\u{e9}",
    "\u{20ac}\u{20ac}",
    "\u{20ac}\u{1f600}",
    "\u{1f600}a",
    "\u{1f600}\u{e9}",
    "\u{1f600}\u{20ac}",
    "\u{1f600}\u{1f600}",
    "aaa",
    "aa\u{e9}",
    "aa\u{20ac}",
    "aa\u{1f600}",
    "a\u{e9}a",
    "a\u{e9}\u{e9}",
    "a\u{e9}\u{20ac}",
    "a\u{e9}\u{1f600}",
    "a\u{20ac}a",
    "a\u{20ac}\u{e9}",
    "a\u{20ac}\u{20ac}",
    "a\u{20ac}\u{1f600}",
    "a\u{1f600}a",
    "a\u{1f600}\u{e9}",
    "a\u{1f600}\u{20ac}",
    "a\u{1f600}\u{1f600}",
    "\u{e9}aa",
    "\u{e9}a\u{e9}",
    "\u{e9}a\u{20ac}",
    "\u{e9}a\u{1f600}",
    "\u{e9}\u{e9}a",
    "\u{e9}\u{e9}\u{e9}",
    "\u{e9}\u{e9}\u{20ac}",
    "\u{e9}\u{e9}\u{1f600}",
    "\u{e9}\u{20ac}a",
    "\u{e9}\u{20ac}\u{e9}",
    "\u{e9}\u{20ac}\u{20ac}",
    "\u{e9}\u{20ac}\u{1f600}",
    "\u{e9}\u{1f600}a",
    "\u{e9}\u{1f600}\u{e9}",
    "\u{e9}\u{1f600}\u{20ac}",
    "\u{e9}\u{1f600}\u{1f600}",
    "\u{20ac}aa",
    "\u{20ac}a\u{e9}",
    "\u{20ac}a\u{20ac}",
    "\u{20ac}a\u{1f600}",
    "\u{20ac}\u{e9}a",
    "\u{20ac}\u{e9}\u{e9}",
    "\u{20ac}\u{e9}\u{20ac}",
    "\u{20ac}\u{e9}\u{1f600}",
    "\u{20ac}\u{20ac}a",
    "\u{20ac}\u{20ac}\u{e9}",
    "\u{20ac}\u{20ac}\u{20ac}",
    "\u{20ac}\u{20ac}\u{1f600}",
    "\u{20ac}\u{1f600}a",
    "\u{20ac}\u{1f600}\u{e9}",
    "\u{20ac}\u{1f600}\u{20ac}",
    "\u{20ac}\u{1f600}\u{1f600}",
    "\u{1f600}aa",
    "\u{1f600}a\u{e9}",
    "\u{1f600}a\u{20ac}",
    "\u{1f600}a\u{1f600}",
    "\u{1f600}\u{e9}a",
    "\u{1f600}\u{e9}\u{e9}",
    "\u{1f600}\u{e9}\u{20ac}",
    "\u{1f600}\u{e9}\u{1f600}",
    "\u{1f600}\u{20ac}a",
    "\u{1f600}\u{20ac}\u{e9}",
    "\u{1f600}\u{20ac}\u{20ac}",
    "\u{1f600}\u{20ac}\u{1f600}",
    "\u{1f600}\u{1f600}a",
    "\u{1f600}\u{1f600}\u{e9}",
    "\u{1f600}\u{1f600}\u{20ac}",
    "\u{1f600}\u{1f600}\u{1f600}"
    ];
    const EXTRA: [&str; 6] = [
    "\u{130}",
    "\u{212a}x",
    "\u{df}",
    "a\u{301}",
    "Z\u{3a3}",
    "\u{1c5}b"
    ];
    const SECOND: [&str; 6] = ["", "a", "\u{e9}", "a\u{20ac}", "\u{1f600}b", "\u{e9}a"];

    /// the representation invariant (fenced_string.rs:11): an empty table means every char is one byte;
    /// a non-empty table lists every char start (it may be redundant for all-ASCII text, e.g. after substring)
    fn invariant(f: &FencedString) -> bool {
        let ascii = f.buffer.len() == f.buffer.chars().count();
        if f.char_starts.is_empty() {
            return ascii;
        }
        let mut n = 0;
        for (k, (i, _)) in f.buffer.char_indices().enumerate() {
            if k >= f.char_starts.len() || f.char_starts[k] != i {
                return false;
            }
            n += 1;
        }
        n == f.char_starts.len()
    }
    const MAXC: usize = 4;
    const MAXB: usize = 12;
    /// byte offset of every char of a concrete string (offs[k] = len for k >= count) and whether it is multi-byte
    fn layout(s: &str) -> ([usize; MAXC + 3], [bool; MAXC + 3], usize) {
        let mut offs = [s.len(); MAXC + 3];
        let mut wide = [false; MAXC + 3];
        let mut n = 0;
        for (i, c) in s.char_indices() {
            offs[n] = i;
            wide[n] = c.len_utf8() > 1;
            n += 1;
        }
        (offs, wide, n)
    }

    /// the string is concrete; the slice bounds a, b and the presence of an end are symbolic
    fn check_string(s: &str) {
        crate::trace!(text = s);
        let f = FencedString::from_str(s);
        let (offs, wide, n) = layout(s);
        assert!(invariant(&f), "from_string establishes the invariant");
        assert!(f.len() == n, "len counts code points");
        assert!(f.bytes() == s.len(), "buffer is the text");
        let a: usize = kani::any();
        let b: usize = kani::any();
        let has_end: bool = kani::any();
        kani::assume(a <= n && b >= a && b <= n + 2);
        let end = if has_end { Some(b) } else { None };
        crate::trace!(start = a);
        crate::trace!(end = end);
        let last = if has_end && b < n { b } else { n }; // one past the last code point of the slice
        let (ba, bb) = (offs[a], offs[last]);
        // substr is a view into the buffer: its position and length determine it
        let view = f.substr(a, end);
        assert!(view.len() == bb - ba, "substr(a, b) spans the bytes of code points a..b");
        assert!(view.as_ptr() as usize - f.as_str().as_ptr() as usize == ba, "substr(a, b) starts at code point a");
        let sub = f.substring(a, end);
        assert!(sub.bytes() == bb - ba, "substring(a, b) has the bytes of code points a..b");
        let mut k = 0;
        while k < MAXB {
            if k < bb - ba {
                assert!(sub.as_str().as_bytes()[k] == s.as_bytes()[ba + k], "substring(a, b) copies the text of code points a..b");
            }
            k += 1;
        }
        assert!(sub.len() == last - a, "substring len counts code points");
        // invariant of the result, stated on the model (decoding symbolic bytes is not explorable)
        let mut any_wide = false;
        let mut k = 0;
        while k < MAXC {
            if k >= a && k < last && wide[k] {
                any_wide = true;
            }
            k += 1;
        }
        if any_wide || !sub.char_starts.is_empty() {
            assert!(sub.char_starts.len() == last - a, "substring table has one entry per code point");
            let mut k = 0;
            while k < MAXC {
                if k < last - a {
                    assert!(sub.char_starts[k] == offs[a + k] - ba, "substring table lists the code point starts");
                }
                k += 1;
            }
        }
        kani::cover!(a == n, "empty suffix at the end");
        kani::cover!(has_end && b > n, "end past the end");
        kani::cover!(n < 3 || (a > 0 && has_end && b < n), "inner slice");
        std::mem::forget(sub);
        std::mem::forget(f);
    }
    // one harness per table entry (heap objects of earlier strings make later ones disproportionately expensive)
    macro_rules! shape_one {
        ($name:ident, $table:ident, $idx:expr) => {
            #[kani::proof]
            #[kani::unwind(14)]
            fn $name() {
                check_string($table[$idx]);
            }
        };
    }
    shape_one!(c18_shape_00, SHAPES, 0);
    shape_one!(c18_shape_01, SHAPES, 1);
    shape_one!(c18_shape_02, SHAPES, 2);
    shape_one!(c18_shape_03, SHAPES, 3);
    shape_one!(c18_shape_04, SHAPES, 4);
    shape_one!(c18_shape_05, SHAPES, 5);
    shape_one!(c18_shape_06, SHAPES, 6);
    shape_one!(c18_shape_07_t, SHAPES, 7);
    shape_one!(c18_shape_08_t, SHAPES, 8);
    shape_one!(c18_shape_09, SHAPES, 9);
    shape_one!(c18_shape_10_t, SHAPES, 10);
    shape_one!(c18_shape_11_t, SHAPES, 11);
    shape_one!(c18_shape_12_t, SHAPES, 12);
    shape_one!(c18_shape_13_t, SHAPES, 13);
    shape_one!(c18_shape_14_t, SHAPES, 14);
    shape_one!(c18_shape_15_t, SHAPES, 15);
    shape_one!(c18_shape_16_t, SHAPES, 16);
    shape_one!(c18_shape_17_t, SHAPES, 17);
    shape_one!(c18_shape_18_t, SHAPES, 18);
    shape_one!(c18_shape_19_t, SHAPES, 19);
    shape_one!(c18_shape_20_t, SHAPES, 20);
    shape_one!(c18_shape_21_t, SHAPES, 21);
    shape_one!(c18_shape_22_t, SHAPES, 22);
    shape_one!(c18_shape_23_t, SHAPES, 23);
    shape_one!(c18_shape_24_t, SHAPES, 24);
    shape_one!(c18_shape_25_t, SHAPES, 25);
    shape_one!(c18_shape_26_t, SHAPES, 26);
    shape_one!(c18_shape_27_t, SHAPES, 27);
    shape_one!(c18_shape_28_t, SHAPES, 28);
    shape_one!(c18_shape_29_t, SHAPES, 29);
    shape_one!(c18_shape_30_t, SHAPES, 30);
    shape_one!(c18_shape_31_t, SHAPES, 31);
    shape_one!(c18_shape_32_t, SHAPES, 32);
    shape_one!(c18_shape_33, SHAPES, 33);
    shape_one!(c18_shape_34_t, SHAPES, 34);
    shape_one!(c18_shape_35_t, SHAPES, 35);
    shape_one!(c18_shape_36_t, SHAPES, 36);
    shape_one!(c18_shape_37, SHAPES, 37);
    shape_one!(c18_shape_38_t, SHAPES, 38);
    shape_one!(c18_shape_39_t, SHAPES, 39);
    shape_one!(c18_shape_40_t, SHAPES, 40);
    shape_one!(c18_shape_41_t, SHAPES, 41);
    shape_one!(c18_shape_42_t, SHAPES, 42);
    shape_one!(c18_shape_43_t, SHAPES, 43);
    shape_one!(c18_shape_44_t, SHAPES, 44);
    shape_one!(c18_shape_45_t, SHAPES, 45);
    shape_one!(c18_shape_46_t, SHAPES, 46);
    shape_one!(c18_shape_47_t, SHAPES, 47);
    shape_one!(c18_shape_48_t, SHAPES, 48);
    shape_one!(c18_shape_49_t, SHAPES, 49);
    shape_one!(c18_shape_50_t, SHAPES, 50);
    shape_one!(c18_shape_51_t, SHAPES, 51);
    shape_one!(c18_shape_52_t, SHAPES, 52);
    shape_one!(c18_shape_53_t, SHAPES, 53);
    shape_one!(c18_shape_54_t, SHAPES, 54);
    shape_one!(c18_shape_55_t, SHAPES, 55);
    shape_one!(c18_shape_56_t, SHAPES, 56);
    shape_one!(c18_shape_57_t, SHAPES, 57);
    shape_one!(c18_shape_58_t, SHAPES, 58);
    shape_one!(c18_shape_59_t, SHAPES, 59);
    shape_one!(c18_shape_60_t, SHAPES, 60);
    shape_one!(c18_shape_61_t, SHAPES, 61);
    shape_one!(c18_shape_62_t, SHAPES, 62);
    shape_one!(c18_shape_63_t, SHAPES, 63);
    shape_one!(c18_shape_64_t, SHAPES, 64);
    shape_one!(c18_shape_65_t, SHAPES, 65);
    shape_one!(c18_shape_66_t, SHAPES, 66);
    shape_one!(c18_shape_67_t, SHAPES, 67);
    shape_one!(c18_shape_68_t, SHAPES, 68);
    shape_one!(c18_shape_69_t, SHAPES, 69);
    shape_one!(c18_shape_70_t, SHAPES, 70);
    shape_one!(c18_shape_71_t, SHAPES, 71);
    shape_one!(c18_shape_72_t, SHAPES, 72);
    shape_one!(c18_shape_73_t, SHAPES, 73);
    shape_one!(c18_shape_74_t, SHAPES, 74);
    shape_one!(c18_shape_75_t, SHAPES, 75);
    shape_one!(c18_shape_76_t, SHAPES, 76);
    shape_one!(c18_shape_77_t, SHAPES, 77);
    shape_one!(c18_shape_78_t, SHAPES, 78);
    shape_one!(c18_shape_79_t, SHAPES, 79);
    shape_one!(c18_shape_80_t, SHAPES, 80);
    shape_one!(c18_shape_81_t, SHAPES, 81);
    shape_one!(c18_shape_82_t, SHAPES, 82);
    shape_one!(c18_shape_83_t, SHAPES, 83);
    shape_one!(c18_shape_84_t, SHAPES, 84);
    shape_one!(c18_extra_0, EXTRA, 0);
    shape_one!(c18_extra_1_t, EXTRA, 1);
    shape_one!(c18_extra_2_t, EXTRA, 2);
    shape_one!(c18_extra_3_t, EXTRA, 3);
    shape_one!(c18_extra_4_t, EXTRA, 4);
    shape_one!(c18_extra_5_t, EXTRA, 5);

    /// concatenation: x + y and push_ascii build exactly what from_string builds for the concatenated text
    macro_rules! push_harness {
        ($name:ident, $lo:expr, $hi:expr) => {
            #[kani::proof]
            #[kani::unwind(14)]
            fn $name() {
                let j: usize = kani::any();
                kani::assume(j < SECOND.len());
                let mut idx = $lo;
                while idx < $hi {
                    let x = FencedString::from_str(SHAPES[idx]);
                    let mut jj = 0;
                    while jj < SECOND.len() {
                        if jj == j {
                            crate::trace!(left = SHAPES[idx]);
                            crate::trace!(right = SECOND[jj]);
                            let y = FencedString::from_str(SECOND[jj]);
                            let z = &x + &y;
                            assert!(invariant(&z), "concatenation keeps the invariant");
                            assert!(z.len() == x.len() + y.len(), "len of concatenation");
                            assert!(z.as_str().len() == x.bytes() + y.bytes() && z.as_str().starts_with(x.as_str()) && z.as_str().ends_with(y.as_str()), "text of concatenation");
                            std::mem::forget(z);
                            std::mem::forget(y);
                        }
                        jj += 1;
                    }
                    let mut w = x.clone();
                    w.push_ascii("hi");
                    assert!(invariant(&w), "push_ascii keeps the invariant");
                    assert!(w.len() == x.len() + 2, "len after push_ascii");
                    std::mem::forget(w);
                    std::mem::forget(x);
                    idx += 1;
                }
            }
        };
    }
    push_harness!(c18_push_x00, 0, 1);
    push_harness!(c18_push_x01, 1, 2);
    push_harness!(c18_push_x02_t, 2, 3);
    push_harness!(c18_push_x06_t, 6, 7);
    push_harness!(c18_push_x04_t, 4, 5);
    push_harness!(c18_push_x09_t, 9, 10);
    push_harness!(c18_push_x14_t, 14, 15);

    /// eq / cmp follow the text
    #[kani::proof]
    #[kani::unwind(14)]
    fn c18_eq_cmp() {
        let i: usize = kani::any();
        let j: usize = kani::any();
        kani::assume(i < SECOND.len() && j < SECOND.len());
        let (mut x, mut y) = (FencedString::default(), FencedString::default());
        let mut k = 0;
        while k < SECOND.len() {
            if k == i {
                x = FencedString::from_str(SECOND[k]);
            }
            if k == j {
                y = FencedString::from_str(SECOND[k]);
            }
            k += 1;
        }
        assert!((x == y) == (i == j), "eq is equality of text (table entries are distinct)");
        assert!((x.cmp(&y) == Ordering::Equal) == (x == y), "cmp consistent with eq");
        assert!(x.cmp(&y) == y.cmp(&x).reverse(), "cmp antisymmetric");
        std::mem::forget(x);
        std::mem::forget(y);
    }
    // VERIF-PLAYBACK-INSERT
}
