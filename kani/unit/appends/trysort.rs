// appended to the copy of src/util/trysort.rs: harnesses for the private merge / insert_head
#[cfg(kani)]
mod verif_kani {
    use super::*;
    type El = (u8, u8); // (key, original index)
    type R = Result<Result<bool, u8>, u8>;

    fn any_els<const N: usize>() -> [El; N] {
        let keys: [u8; N] = kani::any();
        let mut out = [(0u8, 0u8); N];
        let mut i = 0;
        while i < N {
            kani::assume(keys[i] < 4);
            out[i] = (keys[i], i as u8);
            i += 1;
        }
        out
    }
    fn sorted_stable(v: &[El]) -> bool {
        let mut i = 1;
        while i < v.len() {
            if v[i - 1].0 > v[i].0 || (v[i - 1].0 == v[i].0 && v[i - 1].1 > v[i].1) {
                return false;
            }
            i += 1;
        }
        true
    }
    fn permutation(v: &[El], orig: &[El]) -> bool {
        // indices are distinct, so v is a permutation of orig iff every original element occurs in v
        let mut i = 0;
        while i < orig.len() {
            let mut found = false;
            let mut j = 0;
            while j < v.len() {
                if v[j] == orig[i] {
                    found = true;
                }
                j += 1;
            }
            if !found {
                return false;
            }
            i += 1;
        }
        v.len() == orig.len()
    }

    // (a harness for `merge` was removed: CBMC models the symbolic-length copy_nonoverlapping in MergeHole::drop
    // imprecisely -- the harness failed for inputs that pass natively and as a fully concrete Kani harness; see DESIGN.md 5b)
    #[kani::proof]
    #[kani::unwind(7)]
    fn c19_insert_head_5() {
        const N: usize = 5;
        let mut v: [El; N] = any_els::<N>();
        let orig = v;
        let len: usize = kani::any();
        kani::assume(len <= N);
        kani::assume(sorted_stable(&v[1.min(len)..len]));
        // v[0] carries the smallest index, as in insertion from the right
        let fail_at: u8 = kani::any();
        let mut calls: u8 = 0;
        let mut is_less = |a: &El, b: &El| -> R {
            calls += 1;
            if calls == fail_at {
                return Err(9);
            }
            Ok(Ok(a.0 < b.0))
        };
        let r = insert_head(&mut v[..len], &mut is_less);
        assert!(permutation(&v[..len], &orig[..len]), "no element lost or duplicated");
        match r {
            Ok(Ok(())) => assert!(sorted_stable(&v[..len]), "head inserted in order, stably"),
            Err(e) => assert!(e == 9, "violation is the comparator's"),
            Ok(Err(_)) => assert!(false, "no error value was produced"),
        }
        kani::cover!(r == Ok(Ok(())) && len == 5 && v[4] == orig[0], "head travels to the end");
        kani::cover!(r == Err(9) && calls == 3, "fails at the third comparison");
    }
    // VERIF-PLAYBACK-INSERT
}
