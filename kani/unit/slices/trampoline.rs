//! SLICE of src/runtime_scope.rs `RuntimeScope::eval_func_with_values`: the body of the
//! `XFunction::UserFunction { template, output } => { .. }` arm (the tail-call trampoline), copied verbatim on every run.
//! The environment (`rt`, `Self::from_template`, `scope.eval`) is a symbolic script: each frame's evaluation yields
//! the next scripted outcome; calls, frames and the order of limit checks are recorded.
#![allow(unused_mut, unreachable_code, clippy::all)]
use std::cell::{Cell, RefCell};
use std::rc::Rc;
#[derive(Debug, Clone, PartialEq)]
pub enum RuntimeViolation {
    AllocationLimitReached,
    MaximumRecursion,
    MaximumStackDepth,
    MaximumUDCall,
    MaximumSearch,
    Timeout,
}
pub type RuntimeResult<T> = Result<T, RuntimeViolation>;
pub type Args = u8;
#[derive(Debug, PartialEq)]
pub enum TailedEvalResult {
    Value(u8),
    TailCall(Args),
}
pub struct Limits {
    pub recursion_limit: Option<usize>,
}
/// one scripted step: what evaluating the body of the k-th frame yields
#[derive(Clone, Copy)]
pub enum Step {
    Tail(u8),
    Value(u8),
    Violation,
}
pub struct Rt {
    pub limits: Limits,
    pub script: [Step; 6],
    pub call_limit_fails: bool,
    pub timeout_fails: bool,
    // recording
    pub events: Cell<[u8; 16]>, // 1 = increment_call_limit, 2 = check_timeout, 3 = frame created, 4 = body evaluated
    pub n_events: Cell<usize>,
    pub frames_created: Cell<usize>,
    pub live_frames: Cell<usize>,
    pub max_live_frames: Cell<usize>,
    pub args_seen: Cell<[u8; 8]>,
    pub tail_flags_ok: Cell<bool>,
}
impl Rt {
    pub fn event(&self, e: u8) {
        let mut ev = self.events.get();
        let n = self.n_events.get();
        if n < 16 {
            ev[n] = e;
        }
        self.events.set(ev);
        self.n_events.set(n + 1);
    }
    pub fn increment_call_limit(&self) -> RuntimeResult<()> {
        self.event(1);
        if self.call_limit_fails { Err(RuntimeViolation::MaximumUDCall) } else { Ok(()) }
    }
    pub fn check_timeout(&self) -> RuntimeResult<()> {
        self.event(2);
        if self.timeout_fails { Err(RuntimeViolation::Timeout) } else { Ok(()) }
    }
}
pub type RTCell = Rc<Rt>;
pub struct Template;
pub struct Output;
pub struct Frame {
    rt: RTCell,
    index: usize,
}
impl Drop for Frame {
    fn drop(&mut self) {
        self.rt.live_frames.set(self.rt.live_frames.get() - 1);
    }
}
impl Frame {
    pub fn eval(&self, _output: &Output, rt: RTCell, tail_available: bool) -> RuntimeResult<TailedEvalResult> {
        rt.event(4);
        if !tail_available {
            rt.tail_flags_ok.set(false);
        }
        match rt.script[if self.index < 6 { self.index } else { 5 }] {
            Step::Tail(a) => Ok(TailedEvalResult::TailCall(a)),
            Step::Value(v) => Ok(TailedEvalResult::Value(v)),
            Step::Violation => Err(RuntimeViolation::AllocationLimitReached),
        }
    }
}
pub struct Caller;
impl Caller {
    pub fn from_template(_template: Rc<Template>, _parent: Option<&Caller>, rt: RTCell, args: Args) -> RuntimeResult<Frame> {
        rt.event(3);
        let index = rt.frames_created.get();
        rt.frames_created.set(index + 1);
        rt.live_frames.set(rt.live_frames.get() + 1);
        if rt.live_frames.get() > rt.max_live_frames.get() {
            rt.max_live_frames.set(rt.live_frames.get());
        }
        let mut seen = rt.args_seen.get();
        if index < 8 {
            seen[index] = args;
        }
        rt.args_seen.set(seen);
        Ok(Frame { rt: rt.clone(), index })
    }
    pub fn call_user_function(&self, template: &Rc<Template>, output: &Box<Output>, args: Args, rt: RTCell) -> RuntimeResult<TailedEvalResult> {
        /*SLICE*/
    }
}
