//! SLICE of src/util/trysort.rs `try_sort`: the natural-run detection (`if start > 0 { .. }` block that follows
//! `let mut start = end - 1;`), copied verbatim on every run.  Needed because the driver only takes this path for more
//! than 20 elements, which CBMC cannot reach through `try_sort` itself.
#![allow(unused_mut, unreachable_code, unused_unsafe, clippy::all)]
use crate::forward_err;
pub fn find_run<T, F, E0, E1>(v: &mut [T], end: usize, is_less: &mut F) -> Result<Result<usize, E1>, E0>
where
    F: FnMut(&T, &T) -> Result<Result<bool, E1>, E0>,
{
    let mut start = end - 1;
    /*SLICE*/
    Ok(Ok(start))
}
