//! SLICE of src/builtin/mapping.rs: `enum KeyLocation` and the functions `locate`, `get`, `try_put_located`, `put_located`,
//! `put`, `try_put`, `new` of `impl XMapping` (the bucket table kernel every mapping native goes through) and the table
//! rebuild of the `pop` native, copied verbatim on every run.  Environment: keys are ids of a small universe; the user-supplied hash and equality are played by
//! `RuntimeScope::eval_func_with_values` from symbolic tables (equality = same class, hash = a function of the class, i.e.
//! ANY hash that agrees with the equality, collisions included), and can fail at a symbolic call with an error value or
//! a violation.  `std::collections::HashMap` is a fixed-capacity association list (3 slots, one per key of the universe; overflow is a tripwire).
#![allow(private_interfaces, unused, unused_mut, unreachable_code, unused_macros, unused_variables, dead_code, clippy::all)]
use crate::lazy_bigint::LazyBigint;
use num_traits::ToPrimitive;
use std::cell::Cell;
use std::fmt::Debug;
use std::marker::PhantomData;
use std::rc::Rc;


/// finite-map model standing in for std::collections::HashMap<K, V>: 3 slots (one per key of the universe), no reallocation (the Vec-backed model of the
/// K-crate engine makes symex crawl here: every access walks a heap object of symbolic length)
pub const NSLOTS: usize = 3;
#[derive(Clone, Debug)]
pub struct HashMap<K, V> {
    slots: [Option<(K, V)>; NSLOTS],
}
impl<K, V> Default for HashMap<K, V> {
    fn default() -> Self {
        HashMap { slots: [None, None, None] }
    }
}
impl<K: Eq, V> HashMap<K, V> {
    fn pos(&self, k: &K) -> Option<usize> {
        let mut i = 0;
        while i < NSLOTS {
            if let Some((kk, _)) = &self.slots[i] {
                if kk == k {
                    return Some(i);
                }
            }
            i += 1;
        }
        None
    }
    pub fn len(&self) -> usize {
        let mut n = 0;
        let mut i = 0;
        while i < NSLOTS {
            if self.slots[i].is_some() {
                n += 1;
            }
            i += 1;
        }
        n
    }
    pub fn get(&self, k: &K) -> Option<&V> {
        match self.pos(k) {
            Some(i) => self.slots[i].as_ref().map(|e| &e.1),
            None => None,
        }
    }
    pub fn get_mut(&mut self, k: &K) -> Option<&mut V> {
        match self.pos(k) {
            Some(i) => self.slots[i].as_mut().map(|e| &mut e.1),
            None => None,
        }
    }
    pub fn insert(&mut self, k: K, v: V) -> Option<V> {
        if let Some(i) = self.pos(&k) {
            let old = self.slots[i].take();
            self.slots[i] = Some((k, v));
            return old.map(|e| e.1);
        }
        let mut i = 0;
        while i < NSLOTS {
            if self.slots[i].is_none() {
                self.slots[i] = Some((k, v));
                return None;
            }
            i += 1;
        }
        panic!("tripwire: map model capacity exceeded")
    }
    pub fn entry(&mut self, k: K) -> Entry<'_, K, V> {
        Entry { map: self, key: k }
    }
    pub fn iter(&self) -> MapIter<'_, K, V> {
        MapIter { m: self, i: 0 }
    }
}
pub struct MapIter<'a, K, V> {
    m: &'a HashMap<K, V>,
    i: usize,
}
impl<'a, K, V> Iterator for MapIter<'a, K, V> {
    type Item = (&'a K, &'a V);
    fn next(&mut self) -> Option<(&'a K, &'a V)> {
        while self.i < NSLOTS {
            self.i += 1;
            if let Some((k, v)) = &self.m.slots[self.i - 1] {
                return Some((k, v));
            }
        }
        None
    }
}
impl<K: Eq, V> FromIterator<(K, V)> for HashMap<K, V> {
    fn from_iter<I: IntoIterator<Item = (K, V)>>(it: I) -> Self {
        let mut m = HashMap::default();
        for (k, v) in it {
            m.insert(k, v);
        }
        m
    }
}
pub struct Entry<'a, K, V> {
    map: &'a mut HashMap<K, V>,
    key: K,
}
impl<'a, K: Eq, V> Entry<'a, K, V> {
    pub fn or_insert(self, v: V) -> &'a mut V {
        let i = match self.map.pos(&self.key) {
            Some(i) => i,
            None => {
                let mut free = NSLOTS;
                let mut i = 0;
                while i < NSLOTS {
                    if free == NSLOTS && self.map.slots[i].is_none() {
                        free = i;
                    }
                    i += 1;
                }
                assert!(free < NSLOTS, "tripwire: map model capacity exceeded");
                self.map.slots[free] = Some((self.key, v));
                free
            }
        };
        &mut self.map.slots[i].as_mut().unwrap().1
    }
}
impl<K: Eq, V> std::ops::Index<&K> for HashMap<K, V> {
    type Output = V;
    fn index(&self, k: &K) -> &V {
        self.get(k).expect("no entry found for key")
    }
}


/// stands in for `Vec<T>` (the bucket type and the argument vectors): fixed storage for NSLOTS elements, same contract for
/// the operations the kernel uses (push, last, iter, indexing, clone, `vec![..]`); a fourth push is a tripwire.  std's Vec
/// reallocates on push, and CBMC's array post-processing of those symbolic-size copies exhausts memory (as in the C05 slice)
#[derive(Clone, Debug)]
pub struct Bucket<T> {
    items: [Option<T>; NSLOTS],
    len: usize,
}
impl<T> Bucket<T> {
    pub fn new() -> Self {
        Bucket { items: [None, None, None], len: 0 }
    }
    pub fn push(&mut self, t: T) {
        assert!(self.len < NSLOTS, "tripwire: bucket model capacity exceeded");
        self.items[self.len] = Some(t);
        self.len += 1;
    }
    pub fn len(&self) -> usize {
        self.len
    }
    pub fn last(&self) -> Option<&T> {
        if self.len == 0 {
            None
        } else {
            self.items[self.len - 1].as_ref()
        }
    }
    pub fn iter(&self) -> BucketIter<'_, T> {
        BucketIter { b: self, i: 0 }
    }
}
impl<T> FromIterator<T> for Bucket<T> {
    fn from_iter<I: IntoIterator<Item = T>>(it: I) -> Self {
        let mut b = Bucket::new();
        for t in it {
            b.push(t);
        }
        b
    }
}
pub struct BucketIter<'a, T> {
    b: &'a Bucket<T>,
    i: usize,
}
impl<'a, T> Iterator for BucketIter<'a, T> {
    type Item = &'a T;
    fn next(&mut self) -> Option<&'a T> {
        if self.i < self.b.len {
            self.i += 1;
            self.b.items[self.i - 1].as_ref()
        } else {
            None
        }
    }
}
impl<T> std::ops::Index<usize> for Bucket<T> {
    type Output = T;
    fn index(&self, i: usize) -> &T {
        assert!(i < self.len, "index out of bounds");
        self.items[i].as_ref().unwrap()
    }
}
impl<T> std::ops::IndexMut<usize> for Bucket<T> {
    fn index_mut(&mut self, i: usize) -> &mut T {
        assert!(i < self.len, "index out of bounds");
        self.items[i].as_mut().unwrap()
    }
}
macro_rules! vec {
    ($($x:expr),* $(,)?) => {{
        let mut __b = Bucket::new();
        $( __b.push($x); )*
        __b
    }};
}

pub use crate::runtime_violation::RuntimeViolation;
pub type RuntimeResult<T> = Result<T, RuntimeViolation>;
pub type EvaluatedValue<W, R, T> = Result<Rc<ManagedXValue<W, R, T>>, Rc<ManagedXError<W, R, T>>>;
pub type XResult<I, W, R, T> = RuntimeResult<Result<I, Rc<ManagedXError<W, R, T>>>>;

#[derive(Debug)]
pub struct ManagedXError<W, R, T> {
    pub msg: &'static str,
    pub from_user: bool,
    p: PhantomData<(W, R, T)>,
}
impl<W, R, T> ManagedXError<W, R, T> {
    pub fn new(msg: &'static str, _rt: RTCell<W, R, T>) -> RuntimeResult<Rc<Self>> {
        Ok(Rc::new(Self { msg, from_user: false, p: PhantomData }))
    }
}
#[derive(Debug, Clone, Copy, PartialEq)]
pub enum FuncKind {
    Hash,
    Eq,
}
#[derive(Debug)]
pub struct XFunction<W, R, T> {
    pub kind: FuncKind,
    p: PhantomData<(W, R, T)>,
}
#[derive(Debug)]
pub enum XValue<W, R, T> {
    Int(LazyBigint),
    Bool(bool),
    Function(XFunction<W, R, T>),
    Key(u8),
}
#[derive(Debug)]
pub struct ManagedXValue<W, R, T> {
    pub value: XValue<W, R, T>,
}
pub fn func<W, R, T>(kind: FuncKind) -> Rc<ManagedXValue<W, R, T>> {
    Rc::new(ManagedXValue { value: XValue::Function(XFunction { kind, p: PhantomData }) })
}
pub fn key<W, R, T>(id: u8) -> Rc<ManagedXValue<W, R, T>> {
    Rc::new(ManagedXValue { value: XValue::Key(id) })
}
pub struct Runtime<W, R, T>(pub PhantomData<(W, R, T)>);
pub type RTCell<W, R, T> = Rc<Runtime<W, R, T>>;
pub struct TailedEvalResult<W, R, T>(pub EvaluatedValue<W, R, T>);
impl<W, R, T> TailedEvalResult<W, R, T> {
    pub fn unwrap_value(self) -> EvaluatedValue<W, R, T> {
        self.0
    }
}
pub const NKEYS: usize = 3;
/// the user's hash and equality: key id -> class, class -> hash.  `fail_at` (1-based index over all calls, 0 = never)
/// makes that call fail: `fail_violation` ? a runtime violation : an error value
pub struct RuntimeScope<W, R, T> {
    pub class: [u8; NKEYS],
    pub hash: [i64; NKEYS],
    pub calls: Cell<u8>,
    pub fail_at: u8,
    pub fail_violation: bool,
    pub p: PhantomData<(W, R, T)>,
}
impl<W, R, T> RuntimeScope<W, R, T> {
    fn key_of(v: &EvaluatedValue<W, R, T>) -> usize {
        match v {
            Ok(v) => match v.value {
                XValue::Key(k) => k as usize,
                _ => panic!("tripwire: the user hash/equality is called with something that is not a key"),
            },
            Err(_) => panic!("tripwire: the user hash/equality is called with an error argument"),
        }
    }
    pub fn eval_func_with_values(&self, f: &XFunction<W, R, T>, args: Bucket<EvaluatedValue<W, R, T>>, _rt: RTCell<W, R, T>, tail: bool) -> RuntimeResult<TailedEvalResult<W, R, T>> {
        assert!(!tail, "tripwire: the kernel offers the tail position to the user hash/equality");
        let n = self.calls.get() + 1;
        self.calls.set(n);
        if n == self.fail_at {
            std::mem::forget(args);
            if self.fail_violation {
                return Err(RuntimeViolation::Other(9));
            }
            return Ok(TailedEvalResult(Err(Rc::new(ManagedXError { msg: "user function failed", from_user: true, p: PhantomData }))));
        }
        let value = match f.kind {
            FuncKind::Hash => {
                assert!(args.len() == 1, "tripwire: hash arity");
                XValue::Int(LazyBigint::from(self.hash[self.class[Self::key_of(&args[0])] as usize]))
            }
            FuncKind::Eq => {
                assert!(args.len() == 2, "tripwire: eq arity");
                XValue::Bool(self.class[Self::key_of(&args[0])] == self.class[Self::key_of(&args[1])])
            }
        };
        std::mem::forget(args);
        Ok(TailedEvalResult(Ok(Rc::new(ManagedXValue { value }))))
    }
}
/// same text as xray's `to_primitive!` (builtin/core.rs), with the local value type
macro_rules! to_primitive {
    ($x: expr, $v: ident) => {
        match &$x.value {
            XValue::$v(__b) => __b,
            other => panic!("error when converting primitive, expected {}", stringify!($v)),
        }
    };
}
use crate::forward_err;

pub type MappingBucket<W, R, T, V> = Bucket<(Rc<ManagedXValue<W, R, T>>, V)>;
pub struct XMapping<W, R, T, V = Rc<ManagedXValue<W, R, T>>> {
    pub inner: HashMap<u64, MappingBucket<W, R, T, V>>,
    pub len: usize,
    pub hash_func: Rc<ManagedXValue<W, R, T>>,
    pub eq_func: Rc<ManagedXValue<W, R, T>>,
}
impl<W, R, T, V: Clone> Clone for XMapping<W, R, T, V> {
    fn clone(&self) -> Self {
        Self { inner: self.inner.clone(), len: self.len, hash_func: self.hash_func.clone(), eq_func: self.eq_func.clone() }
    }
}

/*SLICE:keyloc*/

impl<W: 'static, R: 'static, T: 'static, V: Debug + 'static> XMapping<W, R, T, V> {
    pub(crate) /*SLICE:new*/
    pub(crate) /*SLICE:locate*/
    pub(crate) /*SLICE:get*/
    pub(crate) /*SLICE:try_put_located*/
    pub(crate) /*SLICE:put_located*/
    pub(crate) /*SLICE:put*/
    pub(crate) /*SLICE:try_put*/
}

/// public mirror of the (private) KeyLocation for the harness
#[derive(Debug, Clone, Copy, PartialEq)]
pub enum Loc {
    Missing(u64),
    Vacant(u64),
    Found(u64, usize),
}
pub fn locate_pub<W: 'static, R: 'static, T: 'static, V: Debug + 'static>(
    m: &XMapping<W, R, T, V>,
    k: &Rc<ManagedXValue<W, R, T>>,
    ns: &RuntimeScope<W, R, T>,
    rt: RTCell<W, R, T>,
) -> XResult<Loc, W, R, T> {
    Ok(Ok(match forward_err!(m.locate(k, ns, rt)?) {
        KeyLocation::Missing(h) => Loc::Missing(h),
        KeyLocation::Vacant(h) => Loc::Vacant(h),
        KeyLocation::Found((h, i)) => Loc::Found(h, i),
    }))
}

/// the table rebuild of the `pop` native (add_mapping_pop), from the located entry to the new mapping: the statements
/// between the pre-flight and `manage_native!`, and the constructor call inside it, copied verbatim
pub fn pop_located<W: 'static, R: 'static, T: 'static, V: Debug + Clone + 'static>(mapping: &XMapping<W, R, T, V>, hash_key: u64, idx: usize) -> XMapping<W, R, T, V> {
    /*SLICE:pop_rebuild*/
    /*SLICE:pop_new*/
}
