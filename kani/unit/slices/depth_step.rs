//! SLICE of src/runtime_scope.rs `RuntimeScope::from_template`: the `height:` initialiser and the depth-limit check,
//! copied verbatim on every run into this shim environment (same field names as the original).
#![allow(unused_mut, unreachable_code, clippy::all)]
pub(crate) use crate::units::StackDepth;
#[derive(Debug, Clone, PartialEq)]
pub enum RuntimeViolation {
    AllocationLimitReached,
    MaximumRecursion,
    MaximumStackDepth,
    MaximumUDCall,
    MaximumSearch,
    Timeout,
}
pub struct Limits {
    pub depth_limit: Option<usize>,
}
pub struct Rt {
    pub limits: Limits,
}
pub(crate) struct Scope {
    pub(crate) height: StackDepth,
}
pub(crate) fn depth_step(stack_parent: Option<&Scope>, rt: &Rt) -> Result<Scope, RuntimeViolation> {
    let mut ret = Scope { height: /*SLICE:height*/ };
    /*SLICE:check*/
    Ok(ret)
}
