//! SLICE of src/builtin/generators.rs `XGenerator::_iter`: the block of the `Self::Slice(gen, start, end) => either_g({ .. })`
//! arm, copied verbatim on every run.  The inner generator is a model stream 0, 1, 2, ..; `to_native!` is the identity.
#![allow(unused_mut, unreachable_code, unused_macros, clippy::all)]
use either::Either;
use std::marker::PhantomData;
#[derive(Clone, Copy, PartialEq, Debug)]
pub struct Item<A, B, C>(pub usize, pub PhantomData<(A, B, C)>);
pub type BIter<'a, A, B, C> = Box<dyn Iterator<Item = Item<A, B, C>> + 'a>;
pub struct Source {
    pub n: usize,
}
impl Source {
    pub fn _iter<'a>(&'a self, _ns: &'a (), _rt: ()) -> impl Iterator<Item = Item<(), (), ()>> + 'a {
        (0..self.n).map(|i| Item(i, PhantomData))
    }
}
macro_rules! to_native {
    ($e:expr, $t:ty) => {
        $e
    };
}
pub fn slice_arm<'a>(gen: &'a Source, start: &'a usize, end: &'a Option<usize>, ns: &'a (), rt: ()) -> impl Iterator<Item = Item<(), (), ()>> + 'a {
    /*SLICE*/
}
