//! SLICE of src/builtin/sequence.rs `add_sequence_take_while`: the `for ((i, item), search) in search(..) { .. }` statement
//! (the searching loop with its budget check), copied verbatim on every run.  Environment: `search` zips the elements
//! with a budget stream that has the contract of RuntimeLimits::search_iter (L times Ok, then MaximumSearch - the real
//! search_iter is decided in the K-crate harness c08_search_iter); the predicate is a scripted callee.
#![allow(unused_mut, unreachable_code, unused_macros, unused_variables, clippy::all)]
use std::cell::Cell;
use std::rc::Rc;
#[derive(Debug, Clone, PartialEq)]
pub enum RuntimeViolation {
    MaximumSearch,
    MaximumUDCall,
}
pub type RuntimeResult<T> = Result<T, RuntimeViolation>;
pub type Item = Result<u8, u8>; // a value (its tag) or an error value
pub struct Val(pub bool);
pub struct Ter(pub Result<Val, u8>);
impl Ter {
    pub fn unwrap_value(self) -> Result<Val, u8> {
        self.0
    }
}
pub struct Rt {
    pub maximum_search: Option<usize>,
}
pub struct Pred {
    pub script: [u8; 6], // 0 = false, 1 = true, 2 = error value, 3 = violation
}
pub struct Ns {
    pub calls: Cell<usize>,
    pub seen: Cell<[u8; 6]>,
}
impl Ns {
    pub fn eval_func_with_values(&self, f: &Pred, args: Vec<Item>, _rt: Rc<Rt>, _tail: bool) -> RuntimeResult<Ter> {
        let k = self.calls.get();
        let mut seen = self.seen.get();
        if k < 6 {
            seen[k] = match args[0] { Ok(t) => t, Err(_) => 255 };
        }
        self.seen.set(seen);
        self.calls.set(k + 1);
        match f.script[if k < 6 { k } else { 5 }] {
            0 => Ok(Ter(Ok(Val(false)))),
            1 => Ok(Ter(Ok(Val(true)))),
            2 => Ok(Ter(Err(9))),
            _ => Err(RuntimeViolation::MaximumUDCall),
        }
    }
}
/// same contract as `builtin::core::search`: pairs every element with the next answer of the search budget
pub fn search<I: IntoIterator>(other: I, rt: Rc<Rt>) -> impl Iterator<Item = (I::Item, RuntimeResult<()>)> {
    let lim = rt.maximum_search;
    let mut given = 0usize;
    let budget = std::iter::from_fn(move || {
        let r = match lim {
            Some(l) if given >= l => Err(RuntimeViolation::MaximumSearch),
            _ => Ok(()),
        };
        given += 1;
        Some(r)
    });
    other.into_iter().zip(budget)
}
pub enum Outcome {
    End(Option<usize>),
    Error(u8),
}
macro_rules! xraise {
    ($e:expr) => {
        match $e {
            Ok(v) => v,
            Err(e) => return Ok(Outcome::Error(e)),
        }
    };
}
macro_rules! to_primitive {
    ($v:expr, Bool) => {
        &($v).0
    };
}
pub fn take_while_loop(arr: impl Iterator<Item = RuntimeResult<Item>>, f: &Pred, ns: &Ns, rt: Rc<Rt>, len: Option<usize>) -> RuntimeResult<Outcome> {
    let mut end_idx = len;
    /*SLICE*/
    Ok(Outcome::End(end_idx))
}
