//! SLICE of src/compilation_scope.rs `CompilationScope::resolve_overload`: everything from `let mut exact_matches = vec![];`
//! to the end of the function (candidate classification, ranking, ambiguity / no-overload errors), copied verbatim on
//! every run.  The environment models an overload by what the ranking depends on: static or dynamic (factory), generic
//! or not, whether its signature binds the argument types, whether the factory succeeds.
#![allow(unused_mut, unreachable_code, unused_variables, clippy::all)]
pub type Identifier = u32;
#[derive(Clone, Debug, PartialEq)]
pub struct Ty {
    pub unknown: bool,
}
impl Ty {
    pub fn is_unknown(&self) -> bool {
        self.unknown
    }
}
#[derive(Clone, Debug)]
pub struct Spec {
    pub id: usize,
    pub generic: bool,
    pub binds: bool,
    pub short_circuit_overloads: bool,
}
#[derive(Default)]
pub struct Bound;
impl Spec {
    pub fn is_generic(&self) -> bool {
        self.generic
    }
    pub fn bind(&self, _args: &[Ty]) -> Option<Bound> {
        if self.binds { Some(Bound) } else { None }
    }
    pub fn xtype(&self) -> usize {
        self.id
    }
}
pub struct FactoryOutput {
    pub spec: Spec,
    pub func: usize,
}
pub struct Arg;
/// a dynamic overload: a plain function (no heap) that reads its scripted behaviour from FACTORY[id]
pub type DynFunc = fn(Option<&[Arg]>, Option<&[Ty]>, &mut Scope, Option<&[Ty]>) -> Result<FactoryOutput, &'static str>;
/// (succeeds, its signature binds the arguments) per dynamic candidate
pub static mut FACTORY: [(bool, bool); 3] = [(false, false); 3];
fn factory(id: usize) -> Result<FactoryOutput, &'static str> {
    let (ok, binds) = unsafe { FACTORY[id] };
    if ok {
        Ok(FactoryOutput { spec: Spec { id, generic: false, binds, short_circuit_overloads: false }, func: id })
    } else {
        Err("factory refused")
    }
}
pub fn factory0(_a: Option<&[Arg]>, _t: Option<&[Ty]>, _s: &mut Scope, _b: Option<&[Ty]>) -> Result<FactoryOutput, &'static str> {
    factory(0)
}
pub fn factory1(_a: Option<&[Arg]>, _t: Option<&[Ty]>, _s: &mut Scope, _b: Option<&[Ty]>) -> Result<FactoryOutput, &'static str> {
    factory(1)
}
pub fn factory2(_a: Option<&[Arg]>, _t: Option<&[Ty]>, _s: &mut Scope, _b: Option<&[Ty]>) -> Result<FactoryOutput, &'static str> {
    factory(2)
}
pub enum OverloadWithForwardReq {
    Static { spec: Spec, cell_idx: usize, forward_requirements: () },
    Factory(&'static str, DynFunc),
}
pub enum OverloadToConsider {
    FromCell(usize, usize, ()),
    FromFactory(usize, usize),
}
#[derive(Debug, PartialEq)]
pub enum CompilationError {
    AmbiguousOverload { name: Identifier, is_generic: bool, items: usize, param_types: Option<Vec<Ty>> },
    NoOverload { name: Identifier, param_types: Option<Vec<Ty>>, dynamic_failures: Vec<(&'static str, &'static str)> },
}
/// what resolve_overload returns on success: the chosen overload (cell index / factory id)
#[derive(Debug, PartialEq, Clone, Copy)]
pub struct Chosen(pub usize);
pub fn prepare_return(_ns: &mut Scope, considered: OverloadToConsider) -> Result<Chosen, CompilationError> {
    Ok(match considered {
        OverloadToConsider::FromCell(_h, cell, _r) => Chosen(cell),
        OverloadToConsider::FromFactory(t, _f) => Chosen(t),
    })
}
pub struct Scope;
impl Scope {
    pub fn rank(
        &mut self,
        overloads: impl IntoIterator<Item = (usize, OverloadWithForwardReq)>,
        args: Option<&[Arg]>,
        arg_types: Option<Vec<Ty>>,
        dynamic_bind_types: Option<&[Ty]>,
        name: Identifier,
    ) -> Result<Chosen, CompilationError> {
        /*SLICE*/
    }
}
