//! SLICE of src/parser.rs: the body of the `Rule::NUMBER_ANY => { .. }` arm of `parse_expr`, copied verbatim on every run
//! and compiled against this shim environment (same names as the original uses: `input.as_str()`, `XStaticExpr::Literal*`).
#![allow(unused_mut, unreachable_code, clippy::all)]
use std::borrow::Cow;
#[derive(Debug, PartialEq)]
pub enum XStaticExpr {
    LiteralInt(i128),
    LiteralFloat(f64),
}
pub struct Input<'a>(pub &'a str);
impl<'a> Input<'a> {
    pub fn as_str(&self) -> &'a str {
        self.0
    }
}
pub fn number_any(input: Input<'_>) -> Result<XStaticExpr, ()> {
    /*SLICE*/
}
