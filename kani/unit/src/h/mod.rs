pub mod c14;
pub mod c19;
