pub mod c14;
