pub mod c05;
pub mod c08;
pub mod c11;
pub mod c12;
pub mod c14;
pub mod c16;
pub mod c17;
pub mod c19;
