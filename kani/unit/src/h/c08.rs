//! C08 / C07 — depth limit and tail-call trampoline, decided on verbatim slices of runtime_scope.rs
use crate::slices::depth_step::{depth_step, Limits as DLimits, Rt as DRt, RuntimeViolation as DRV, Scope, StackDepth};
use crate::slices::trampoline as tr;
use std::cell::{Cell, RefCell};
use std::rc::Rc;

/// creating the frame at nesting depth h (root = 0, each user-function call one deeper) fails iff h >= L
#[kani::proof]
#[kani::unwind(6)]
fn c08_depth_limit_slice() {
    let l: usize = kani::any();
    let limited: bool = kani::any();
    let rt = DRt { limits: DLimits { depth_limit: if limited { Some(l) } else { None } } };
    // inductive step: an arbitrary existing frame at height h (or no parent), then one more call
    let has_parent: bool = kani::any();
    let h: usize = kani::any();
    kani::assume(h < usize::MAX);
    let parent = Scope { height: StackDepth(h) };
    crate::trace!(depth_limit = rt.limits.depth_limit);
    crate::trace!(has_parent = has_parent);
    crate::trace!(parent_height = h);
    let r = depth_step(if has_parent { Some(&parent) } else { None }, &rt);
    let new_height = if has_parent { h + 1 } else { 0 };
    match r {
        Ok(s) => {
            assert!(s.height.0 == new_height, "height counts nested calls");
            assert!(!limited || new_height < l, "a frame exists only below the limit");
        }
        Err(e) => {
            assert!(e == DRV::MaximumStackDepth, "violation kind");
            assert!(limited && new_height >= l, "the violation is raised exactly when the depth reaches L");
        }
    }
    kani::cover!(limited && has_parent && new_height == l, "depth reaches L exactly");
    kani::cover!(limited && has_parent && l > 0 && new_height == l - 1, "one below the limit");
    kani::cover!(!limited && has_parent, "unlimited");
}

fn any_step() -> tr::Step {
    let k: u8 = kani::any();
    let v: u8 = kani::any();
    kani::assume(v < 200);
    match k % 3 {
        0 => tr::Step::Tail(v),
        1 => tr::Step::Value(v),
        _ => tr::Step::Violation,
    }
}
/// the trampoline: k consecutive tail self-calls then a value.  Result = that value iff k <= L (or no limit), else
/// MaximumRecursion raised after exactly L+1 tail calls; at most one frame is live at any time; the call counter and
/// the deadline are checked once, before the first frame; every body evaluation is offered the tail position and the
/// arguments of frame j+1 are the ones frame j's tail call produced.
#[kani::proof]
#[kani::unwind(18)]
fn c07_trampoline_slice() {
    let l: usize = kani::any();
    let limited: bool = kani::any();
    kani::assume(l <= 3);
    let script = [any_step(), any_step(), any_step(), any_step(), any_step(), tr::Step::Value(7)];
    let rt = Rc::new(tr::Rt {
        limits: tr::Limits { recursion_limit: if limited { Some(l) } else { None } },
        script,
        call_limit_fails: kani::any(),
        timeout_fails: kani::any(),
        events: Cell::new([0; 16]),
        n_events: Cell::new(0),
        frames_created: Cell::new(0),
        live_frames: Cell::new(0),
        max_live_frames: Cell::new(0),
        args_seen: Cell::new([255; 8]),
        tail_flags_ok: Cell::new(true),
    });
    let a0: u8 = kani::any();
    kani::assume(a0 < 200);
    let caller = tr::Caller;
    let r = caller.call_user_function(&Rc::new(tr::Template), &Box::new(tr::Output), a0, rt.clone());
    // reference semantics of the script
    let mut expect: Result<tr::TailedEvalResult, tr::RuntimeViolation> = Ok(tr::TailedEvalResult::Value(0));
    let mut frames = 0usize;
    let mut arg = a0;
    let mut args_expected = [255u8; 8];
    if rt.call_limit_fails {
        expect = Err(tr::RuntimeViolation::MaximumUDCall);
    } else if rt.timeout_fails {
        expect = Err(tr::RuntimeViolation::Timeout);
    } else {
        let mut tails = 0usize;
        let mut i = 0;
        loop {
            args_expected[frames] = arg;
            frames += 1;
            match script[i] {
                tr::Step::Value(v) => {
                    expect = Ok(tr::TailedEvalResult::Value(v));
                    break;
                }
                tr::Step::Violation => {
                    expect = Err(tr::RuntimeViolation::AllocationLimitReached);
                    break;
                }
                tr::Step::Tail(a) => {
                    tails += 1;
                    if limited && tails > l {
                        expect = Err(tr::RuntimeViolation::MaximumRecursion);
                        break;
                    }
                    arg = a;
                }
            }
            i += 1;
        }
    }
    assert!(r == expect, "result = the scripted value, or MaximumRecursion iff more than L consecutive tail calls");
    assert!(rt.frames_created.get() == frames, "one frame per iteration, none after the limit is exceeded");
    assert!(rt.max_live_frames.get() <= 1, "tail calls consume no stack: at most one frame is live");
    assert!(rt.tail_flags_ok.get(), "every body evaluation is offered the tail position");
    let ev = rt.events.get();
    let n_ev = rt.n_events.get();
    let count = |x: u8| -> usize {
        let mut c = 0;
        let mut i = 0;
        while i < 16 {
            if i < n_ev && ev[i] == x {
                c += 1;
            }
            i += 1;
        }
        c
    };
    assert!(n_ev >= 1 && n_ev <= 16 && ev[0] == 1, "the call counter is incremented first");
    assert!(count(1) == 1, "the call counter is incremented once per call, not per iteration");
    if !rt.call_limit_fails {
        assert!(n_ev >= 2 && ev[1] == 2, "the deadline is checked before the first frame");
        assert!(count(2) == 1, "deadline checked once");
    }
    let seen = rt.args_seen.get();
    let mut j = 0;
    while j < 6 {
        if j < frames {
            assert!(seen[j] == args_expected[j], "frame j+1 receives the arguments of frame j's tail call");
        }
        j += 1;
    }
    kani::cover!(r == Err(tr::RuntimeViolation::MaximumRecursion) && l == 2, "limit 2 exceeded");
    kani::cover!(matches!(r, Ok(tr::TailedEvalResult::Value(_))) && frames == 4, "three tail calls then a value");
    kani::cover!(limited && frames == l + 1 && matches!(r, Ok(_)), "exactly L tail calls succeed");
}

/// the searching loop of `take_while` (verbatim slice): with a search limit L the budget is consulted before each
/// element is examined, so MaximumSearch is raised exactly when more than L elements have to be examined, after exactly
/// L predicate calls; otherwise the loop ends at the first rejected element with one predicate call per examined element
#[kani::proof]
#[kani::unwind(8)]
fn c08_take_while_loop_slice() {
    use crate::slices::take_while_loop as tw;
    let l: usize = kani::any();
    let limited: bool = kani::any();
    kani::assume(l <= 5);
    let n: usize = kani::any();
    kani::assume(n >= 1 && n <= 4);
    let s: [u8; 4] = kani::any();
    kani::assume(s[0] <= 1 && s[1] <= 1 && s[2] <= 1 && s[3] <= 1);
    let f = tw::Pred { script: [s[0], s[1], s[2], s[3], 0, 0] };
    let ns = tw::Ns { calls: Cell::new(0), seen: Cell::new([0; 6]) };
    let rt = Rc::new(tw::Rt { maximum_search: if limited { Some(l) } else { None } });
    let items = [100u8, 101, 102, 103];
    let r = tw::take_while_loop((0..n).map(|i| Ok(Ok(items[i]))), &f, &ns, rt.clone(), Some(n));
    let mut k = 0;
    while k < n && s[k] == 1 {
        k += 1;
    }
    let examined = if k < n { k + 1 } else { n };
    let calls = ns.calls.get();
    if limited && examined > l {
        assert!(matches!(r, Err(tw::RuntimeViolation::MaximumSearch)), "more than L elements to examine: MaximumSearch");
        assert!(calls == l, "exactly L elements are examined before the violation");
    } else {
        match r {
            Ok(tw::Outcome::End(e)) => assert!(e == Some(k), "the loop ends at the first rejected element"),
            _ => assert!(false, "no violation when at most L elements are examined"),
        }
        assert!(calls == examined, "one predicate call per examined element");
        let seen = ns.seen.get();
        let mut j = 0;
        while j < 4 {
            if j < calls {
                assert!(seen[j] == 100 + j as u8, "elements are examined in order");
            }
            j += 1;
        }
    }
    kani::cover!(limited && examined == l, "exactly L elements examined: no violation");
    kani::cover!(limited && examined == l + 1, "L+1 elements needed: violation");
    kani::cover!(!limited && k == 4, "whole sequence accepted");
}
