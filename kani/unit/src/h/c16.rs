//! C16 — the iterator arm of a generator slice (verbatim slice of generators.rs): Slice(gen, start, end) yields exactly
//! the elements start..min(end, len) of the inner stream (`end` is an absolute position, as XGenerator::slice builds it)
use crate::slices::gen_slice_arm::{slice_arm, Source};

#[kani::proof]
#[kani::unwind(10)]
fn c16_slice_iter_arm() {
    let n: usize = kani::any();
    let start: usize = kani::any();
    let end: usize = kani::any();
    let has_end: bool = kani::any();
    kani::assume(n <= 6 && start <= 7 && end <= 8);
    let src = Source { n };
    let e = if has_end { Some(end) } else { None };
    let hi = if has_end && end < n { end } else { n };
    let want_len = if start < hi { hi - start } else { 0 };
    let mut round = 0;
    while round < 2 {
        let mut count = 0usize;
        for item in slice_arm(&src, &start, &e, &(), ()) {
            assert!(count < want_len && item.0 == start + count, "element i of the slice is element start+i of the inner stream");
            count += 1;
        }
        assert!(count == want_len, "the slice yields exactly the window start..min(end, len), on every consumption");
        round += 1;
    }
    kani::cover!(has_end && start == 2 && end == 5 && n == 6, "skip(2).take(3)");
    kani::cover!(has_end && end < start, "end before start");
    kani::cover!(!has_end && start > n, "skip past the end");
}
