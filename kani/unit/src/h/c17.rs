//! C17: the bucket-table kernel of XMapping (verbatim slice of src/builtin/mapping.rs) against an association list
//! over the equivalence classes of the user's equality, for ANY hash that agrees with it.
use crate::slices::mapping_kernel as mk;
use std::cell::Cell;
use std::marker::PhantomData;
use std::rc::Rc;

type M = mk::XMapping<(), (), (), u8>;
type Ns = mk::RuntimeScope<(), (), ()>;

fn any_env(fail_at: u8, fail_violation: bool) -> Ns {
    let class: [u8; mk::NKEYS] = kani::any();
    let hash: [i64; mk::NKEYS] = kani::any();
    let mut i = 0;
    while i < mk::NKEYS {
        kani::assume((class[i] as usize) < mk::NKEYS);
        i += 1;
    }
    crate::trace!(class = class);
    crate::trace!(hash = hash);
    crate::trace!(fail_at = fail_at);
    mk::RuntimeScope { class, hash, calls: Cell::new(0), fail_at, fail_violation, p: PhantomData }
}
fn empty() -> M {
    mk::XMapping { inner: Default::default(), len: 0, hash_func: mk::func(mk::FuncKind::Hash), eq_func: mk::func(mk::FuncKind::Eq) }
}
/// the model: value stored for each class, if any
type Model = [Option<u8>; mk::NKEYS];
fn model_len(m: &Model) -> usize {
    let mut n = 0;
    let mut i = 0;
    while i < mk::NKEYS {
        if m[i].is_some() {
            n += 1;
        }
        i += 1;
    }
    n
}
/// a SYMBOLIC key of the universe is looked up (the solver covers every key): found iff its class is stored, with the
/// stored value; len agrees
fn agrees(m: &M, model: &Model, ns: &Ns, rt: &mk::RTCell<(), (), ()>) {
    assert!(m.len == model_len(model), "len is the number of stored classes");
    let id: usize = kani::any();
    kani::assume(id < mk::NKEYS);
    crate::trace!(probe = id);
    let k = mk::key(id as u8);
    match mk::locate_pub(m, &k, ns, rt.clone()) {
        Ok(Ok(mk::Loc::Found(h, i))) => {
            assert!(model[ns.class[id] as usize].is_some(), "a key is found only if its class was stored");
            assert!(Some(*m.get((h, i))) == model[ns.class[id] as usize], "lookup returns the value last stored for the class");
        }
        Ok(Ok(_)) => assert!(model[ns.class[id] as usize].is_none(), "a stored class is found through every key of the class"),
        Ok(Err(e)) => assert!(!e.from_user && ns.hash[ns.class[id] as usize] < 0, "lookup fails only for an out-of-range hash"),
        _ => assert!(false, "lookup with a well-behaved hash/equality cannot fail"),
    }
    std::mem::forget(k);
}

const PERMS: [[usize; 3]; 6] = [[0, 1, 2], [0, 2, 1], [1, 0, 2], [1, 2, 0], [2, 0, 1], [2, 1, 0]];
/// (used by the `_x` harnesses only: on the seeded change C17-agent1 they produced counterexamples that do not reproduce
/// natively, i.e. the pre-state construction or CBMC's treatment of it is not trustworthy; kept for the record)
/// an ARBITRARY valid mapping over the universe (the inductive pre-state): every class is stored or not, with a symbolic
/// value, under a symbolic representative key of the class, in a symbolic bucket order; a class that is not stored may
/// have left an empty bucket behind (as `pop` does).  Built directly on the table, not through the kernel.
fn any_state(ns: &Ns) -> (M, Model) {
    let mut m = empty();
    let mut model: Model = [None; mk::NKEYS];
    let perm: usize = kani::any();
    kani::assume(perm < 6);
    crate::trace!(bucket_order = PERMS[perm]);
    let mut j = 0;
    while j < mk::NKEYS {
        let c = PERMS[perm][j];
        let present: bool = kani::any();
        let ghost: bool = kani::any();
        let v: u8 = kani::any();
        let rep: u8 = kani::any();
        kani::assume((rep as usize) < mk::NKEYS);
        let h = ns.hash[c] as u64;
        if present && ns.class[rep as usize] as usize == c {
            crate::trace!(stored_key = rep);
            crate::trace!(stored_value = v);
            m.inner.entry(h).or_insert(mk::Bucket::new()).push((mk::key(rep), v));
            m.len += 1;
            model[c] = Some(v);
        } else if ghost {
            m.inner.entry(h).or_insert(mk::Bucket::new());
        }
        j += 1;
    }
    (m, model)
}
fn valid_hashes(ns: &Ns) {
    let mut i = 0;
    while i < mk::NKEYS {
        kani::assume(ns.hash[i] >= 0);
        i += 1;
    }
}

/// one put (read-modify-write closures) from an arbitrary valid state: the result agrees with the model on a symbolic
/// probe key, and the version cloned before the put is unchanged
#[kani::proof]
#[kani::unwind(5)]
fn c17_put_step_x() {
    let ns = any_env(0, false);
    valid_hashes(&ns);
    let rt: mk::RTCell<(), (), ()> = Rc::new(mk::Runtime(PhantomData));
    let (mut m, mut model) = any_state(&ns);
    let old = m.clone();
    let old_model = model;
    let id: u8 = kani::any();
    let v: u8 = kani::any();
    kani::assume((id as usize) < mk::NKEYS);
    crate::trace!(put_key = id);
    crate::trace!(put_value = v);
    let k = mk::key(id);
    let c = ns.class[id as usize] as usize;
    let expect = match model[c] {
        Some(p) => p ^ v,
        None => v,
    };
    match m.put(&k, || v, |p| *p ^ v, &ns, rt.clone()) {
        Ok(Ok(r)) => assert!(*r == expect, "put returns the stored value (the update of the value stored for the class)"),
        _ => assert!(false, "put with a well-behaved hash/equality cannot fail"),
    }
    model[c] = Some(expect);
    agrees(&m, &model, &ns, &rt);
    agrees(&old, &old_model, &ns, &rt);
    kani::cover!(old.len == 2 && m.len == 2, "overwrite in a mapping of two");
    kani::cover!(old.len == 2 && m.len == 3 && ns.hash[0] == ns.hash[1] && ns.hash[1] == ns.hash[2], "third class into a shared bucket");
    std::mem::forget(k);
    std::mem::forget(old);
    std::mem::forget(m);
}

/// removal from an arbitrary valid state: the entry of a symbolic key is located and the `pop` native's rebuild (verbatim)
/// is applied: the new mapping is the model without that key's class, the old one is unchanged
#[kani::proof]
#[kani::unwind(5)]
fn c17_pop_step_x() {
    let ns = any_env(0, false);
    valid_hashes(&ns);
    let rt: mk::RTCell<(), (), ()> = Rc::new(mk::Runtime(PhantomData));
    let (m, model) = any_state(&ns);
    let id: u8 = kani::any();
    kani::assume((id as usize) < mk::NKEYS);
    crate::trace!(pop_key = id);
    let k = mk::key(id);
    match mk::locate_pub(&m, &k, &ns, rt.clone()) {
        Ok(Ok(mk::Loc::Found(h, idx))) => {
            assert!(model[ns.class[id as usize] as usize].is_some(), "found only if stored");
            let popped = mk::pop_located(&m, h, idx);
            let mut after = model;
            after[ns.class[id as usize] as usize] = None;
            agrees(&popped, &after, &ns, &rt);
            agrees(&m, &model, &ns, &rt);
            kani::cover!(m.len == 3 && idx == 1, "removal from the middle of a shared bucket");
            kani::cover!(m.len == 1, "removal of the only entry");
            std::mem::forget(popped);
        }
        Ok(Ok(_)) => assert!(model[ns.class[id as usize] as usize].is_none(), "a stored class is found"),
        _ => assert!(false, "lookup with a well-behaved hash/equality cannot fail"),
    }
    std::mem::forget(k);
    std::mem::forget(m);
}

/// N puts of symbolic keys/values from the empty mapping, hash values valid (0 <= h), no failure injected: after every
/// put the mapping agrees with the model on every key of the universe, and the version saved before the last put is unchanged
macro_rules! put_history {
    ($name:ident, $n:expr) => {
        #[kani::proof]
        #[kani::unwind(5)]
        fn $name() {
            let ns = any_env(0, false);
            let mut i = 0;
            while i < mk::NKEYS {
                kani::assume(ns.hash[i] >= 0);
                i += 1;
            }
            let rt: mk::RTCell<(), (), ()> = Rc::new(mk::Runtime(PhantomData));
            let mut m = empty();
            let mut model: Model = [None; mk::NKEYS];
            let mut saved: Option<(M, Model)> = None;
            let mut step = 0;
            while step < $n {
                let id: u8 = kani::any();
                let v: u8 = kani::any();
                kani::assume((id as usize) < mk::NKEYS);
                crate::trace!(put_key = id);
                crate::trace!(put_value = v);
                if step + 1 == $n {
                    saved = Some((m.clone(), model));
                }
                let k = mk::key(id);
                let c = ns.class[id as usize] as usize;
                let expect = match model[c] {
                    Some(p) => p ^ v,
                    None => v,
                };
                match m.put(&k, || v, |p| *p ^ v, &ns, rt.clone()) {
                    Ok(Ok(r)) => assert!(*r == expect, "put returns the stored value"),
                    _ => assert!(false, "put with a well-behaved hash/equality cannot fail"),
                }
                model[c] = Some(expect);
                std::mem::forget(k);
                step += 1;
            }
            agrees(&m, &model, &ns, &rt);
            if let Some((old, old_model)) = &saved {
                agrees(old, old_model, &ns, &rt);
            }
            kani::cover!(m.len == 1 && $n > 1, "overwrite through an equal key");
            kani::cover!(m.len == $n && ns.hash[0] == ns.hash[1] && ns.hash[1] == ns.hash[2], "distinct classes in one bucket (collision)");
            std::mem::forget(saved);
            std::mem::forget(m);
        }
    };
}
put_history!(c17_put_history_2, 2);
put_history!(c17_put_history_3_t, 3);

/// failure atomicity and propagation: the user's hash or equality fails at ANY call (error value or violation), or the
/// hash is out of range: put returns exactly that failure and the mapping still agrees with the model as it was
#[kani::proof]
#[kani::unwind(5)]
fn c17_put_failure() {
    let fail_at: u8 = kani::any();
    let fail_violation: bool = kani::any();
    let ns0 = any_env(0, false);
    let rt: mk::RTCell<(), (), ()> = Rc::new(mk::Runtime(PhantomData));
    // a mapping with one stored key, built without failures (its hash must be valid)
    let id0: u8 = kani::any();
    let v0: u8 = kani::any();
    kani::assume((id0 as usize) < mk::NKEYS);
    kani::assume(ns0.hash[ns0.class[id0 as usize] as usize] >= 0);
    crate::trace!(first_key = id0);
    let mut m = empty();
    let k0 = mk::key(id0);
    assert!(matches!(m.put(&k0, || v0, |_| v0, &ns0, rt.clone()), Ok(Ok(_))), "first put");
    let mut model: Model = [None; mk::NKEYS];
    model[ns0.class[id0 as usize] as usize] = Some(v0);
    // second put under an environment that fails at call `fail_at`
    let ns = mk::RuntimeScope { class: ns0.class, hash: ns0.hash, calls: Cell::new(0), fail_at, fail_violation, p: PhantomData };
    let id: u8 = kani::any();
    let v: u8 = kani::any();
    kani::assume((id as usize) < mk::NKEYS);
    crate::trace!(put_key = id);
    let k = mk::key(id);
    let hash_ok = ns.hash[ns.class[id as usize] as usize] >= 0;
    let r = m.put(&k, || v, |_| v, &ns, rt.clone()).map(|r| r.map(|v| *v));
    let calls = ns.calls.get();
    let failed_call = fail_at != 0 && calls >= fail_at;
    match &r {
        Err(e) => {
            assert!(failed_call && fail_violation, "a violation comes only from the user function");
            assert!(*e == mk::RuntimeViolation::Other(9), "the violation is the user function's");
            assert!(calls == fail_at, "nothing is called after the violation");
        }
        Ok(Err(e)) => {
            assert!((failed_call && !fail_violation) || !hash_ok, "an error value comes from the user function or an out-of-range hash");
            assert!(failed_call || !e.from_user, "an out-of-range hash is reported by the kernel");
            if failed_call {
                assert!(e.from_user && calls == fail_at, "the error value is the user function's; nothing is called after it");
            }
        }
        Ok(Ok(got)) => {
            assert!(!failed_call && hash_ok, "a failing call or an out-of-range hash cannot be swallowed");
            assert!(*got == v, "put returns the stored value");
            model[ns.class[id as usize] as usize] = Some(v);
        }
    }
    // whatever happened, the mapping agrees with the model (unchanged on failure)
    agrees(&m, &model, &ns0, &rt);
    kani::cover!(matches!(r, Err(_)), "violation during put");
    kani::cover!(matches!(r, Ok(Err(_))) && failed_call, "error value from the user function during put");
    kani::cover!(matches!(r, Ok(Err(_))) && !failed_call, "hash out of range");
    std::mem::forget(r);
    std::mem::forget(m);
}
