//! C12/C13/C14 — the numeric-literal handler of the compiler (a verbatim slice of parser.rs) on symbolic literal text
use crate::slices::number_any::{number_any, Input, XStaticExpr};

/// stands in for `<f64 as FromStr>::from_str` (dec2flt is not explorable): any float, or an error.  Witnesses that
/// depend on the value it returns are candidates and are only reported after replay on the real compiler.
fn any_f64_parse(_s: &str) -> Result<f64, std::num::ParseFloatError> {
    if kani::any() {
        Ok(kani::any())
    } else {
        "x".parse::<u8>().map(|_| 0.0).map_err(|_| unsafe { std::mem::transmute::<u8, std::num::ParseFloatError>(1u8) })
    }
}
fn hex_digit(c: u8) -> Option<u128> {
    match c {
        b'0'..=b'9' => Some((c - b'0') as u128),
        b'a'..=b'f' => Some((c - b'a' + 10) as u128),
        b'A'..=b'F' => Some((c - b'A' + 10) as u128),
        _ => None,
    }
}

/// "0x" + n <= 33 symbolic hex digits: the compiler must not crash and an accepted literal has its exact value
#[kani::proof]
#[kani::unwind(37)]
#[kani::stub(<f64 as std::str::FromStr>::from_str, any_f64_parse)]
fn c12_hex_literal() {
    const MAXN: usize = 33;
    let n: usize = kani::any();
    kani::assume(n >= 1 && n <= MAXN);
    let mut buf = [b'0'; MAXN + 2];
    buf[1] = b'x';
    let digits: [u8; MAXN] = kani::any();
    let mut value: u128 = 0;
    let mut overflow = false;
    let mut i = 0;
    while i < MAXN {
        if i < n {
            let d = hex_digit(digits[i]);
            kani::assume(d.is_some());
            buf[i + 2] = digits[i];
            if value >> 124 != 0 {
                overflow = true;
            }
            value = (value << 4) | d.unwrap();
        }
        i += 1;
    }
    #[cfg(verif_kf_literal_overflow)]
    kani::assume(!overflow && value <= i128::MAX as u128);
    let s = unsafe { std::str::from_utf8_unchecked(&buf[..n + 2]) };
    crate::trace!(literal = s);
    let r = number_any(Input(s));
    match r {
        Ok(XStaticExpr::LiteralInt(v)) => {
            assert!(!overflow && value <= i128::MAX as u128 && v == value as i128, "hex literal has its exact value");
        }
        Ok(XStaticExpr::LiteralFloat(_)) => assert!(false, "a hex literal is an integer"),
        Err(()) => {}
    }
    kani::cover!(n == 32 && !overflow && value > u64::MAX as u128, "wide hex literal accepted");
    kani::cover!(n == 1, "one digit");
}

/// n <= 40 symbolic decimal digits (no separator): an all-digit literal is an integer with its exact value
#[kani::proof]
#[kani::unwind(44)]
#[kani::stub(<f64 as std::str::FromStr>::from_str, any_f64_parse)]
fn c12_decimal_literal() {
    const MAXN: usize = 40;
    let n: usize = kani::any();
    kani::assume(n >= 1 && n <= MAXN);
    let mut buf = [b'0'; MAXN];
    let digits: [u8; MAXN] = kani::any();
    let mut value: u128 = 0;
    let mut overflow = false;
    let mut i = 0;
    while i < MAXN {
        if i < n {
            kani::assume(digits[i] >= b'0' && digits[i] <= b'9');
            buf[i] = digits[i];
            match value.checked_mul(10).and_then(|v| v.checked_add((digits[i] - b'0') as u128)) {
                Some(v) => value = v,
                None => overflow = true,
            }
        }
        i += 1;
    }
    #[cfg(verif_kf_literal_overflow)]
    kani::assume(!overflow && value <= i128::MAX as u128);
    let s = unsafe { std::str::from_utf8_unchecked(&buf[..n]) };
    crate::trace!(literal = s);
    let r = number_any(Input(s));
    match r {
        Ok(XStaticExpr::LiteralInt(v)) => {
            assert!(!overflow && value <= i128::MAX as u128 && v == value as i128, "decimal literal has its exact value");
        }
        Ok(XStaticExpr::LiteralFloat(_)) => assert!(false, "an all-digit literal is an integer, not a float"),
        Err(()) => {}
    }
    kani::cover!(n == 39 && !overflow && value <= i128::MAX as u128, "39-digit literal accepted");
}

/// <mantissa digit> e <exponent digits>: a float literal the compiler accepts is finite
#[kani::proof]
#[kani::unwind(8)]
#[kani::stub(<f64 as std::str::FromStr>::from_str, any_f64_parse)]
fn c13_float_literal() {
    let m: u8 = kani::any();
    let e: [u8; 3] = kani::any();
    kani::assume(m >= b'1' && m <= b'9');
    kani::assume(e[0] >= b'0' && e[0] <= b'9' && e[1] >= b'0' && e[1] <= b'9' && e[2] >= b'0' && e[2] <= b'9');
    let buf = [m, b'e', e[0], e[1], e[2]];
    let s = unsafe { std::str::from_utf8_unchecked(&buf) };
    crate::trace!(literal = s);
    match number_any(Input(s)) {
        Ok(XStaticExpr::LiteralFloat(f)) => {
            #[cfg(verif_kf_literal_inf)]
            kani::assume(f.is_finite());
            assert!(f.is_finite(), "an accepted float literal is finite");
        }
        Ok(XStaticExpr::LiteralInt(_)) => assert!(false, "a literal with an exponent is a float"),
        Err(()) => {}
    }
}
