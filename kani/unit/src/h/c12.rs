//! C12/C13/C14 — the numeric-literal handler of the compiler (a verbatim slice of parser.rs) on symbolic literal text
use crate::slices::number_any::{number_any, Input, XStaticExpr};

/// stands in for `<f64 as FromStr>::from_str` (dec2flt is not explorable): any float, or an error.  Witnesses that
/// depend on the value it returns are candidates and are only reported after replay on the real compiler.
fn any_f64_parse(s: &str) -> Result<f64, std::num::ParseFloatError> {
    let b = s.as_bytes();
    // a radix prefix is never a float (std rejects at the second byte)
    let radix_prefix = b.len() >= 2 && (b[1] == b'x' || b[1] == b'b');
    if !radix_prefix && kani::any() {
        Ok(kani::any())
    } else {
        "x".parse::<u8>().map(|_| 0.0).map_err(|_| unsafe { std::mem::transmute::<u8, std::num::ParseFloatError>(1u8) })
    }
}
/// stands in for `str::contains` (std's CharSearcher/memchr machinery does not finish on symbolic bytes).  For a single
/// ASCII `char` pattern it answers `false` and *asserts* that this is the right answer for the harness's literal (the
/// literals never contain the separator the arm looks for), so the branch that rewrites the literal stays closed for
/// symex; any other pattern type is a tripwire, so an arm that searches the literal differently is reported instead of
/// being silently mis-modelled.
fn contains_ascii_char<P: std::str::pattern::Pattern>(s: &str, p: P) -> bool {
    if std::mem::size_of::<P>() == 4 && std::mem::align_of::<P>() == 4 {
        // the only 4-byte Pattern type is `char`
        let c: char = unsafe { std::mem::transmute_copy(&p) };
        std::mem::forget(p);
        let b = s.as_bytes();
        let mut found = false;
        let mut i = 0;
        while i < b.len() {
            if (c as u32) < 128 && b[i] == c as u8 {
                found = true;
            }
            i += 1;
        }
        assert!(!found, "harness precondition: the literal does not contain the character the arm searches for");
        return false;
    }
    if std::mem::align_of::<P>() == 4 && std::mem::size_of::<P>() <= 16 {
        // `[char; N]`, N in 2..=4 (the only other 4-aligned Pattern types): exact, the answer stays symbolic
        let n = std::mem::size_of::<P>() / 4;
        let cs: [char; 4] = unsafe {
            let mut cs = ['\u{10ffff}'; 4];
            std::ptr::copy_nonoverlapping(&p as *const P as *const char, cs.as_mut_ptr(), n);
            cs
        };
        std::mem::forget(p);
        let b = s.as_bytes();
        let mut found = false;
        let mut i = 0;
        while i < b.len() {
            let mut j = 0;
            while j < 4 {
                if j < n && (cs[j] as u32) < 128 && b[i] == cs[j] as u8 {
                    found = true;
                }
                j += 1;
            }
            i += 1;
        }
        return found;
    }
    panic!("tripwire: str::contains with a pattern this harness does not model")
}
/// float parser stub for syntactically valid float literals: std accepts them all, with any value (including infinity)
fn any_f64_value(_s: &str) -> Result<f64, std::num::ParseFloatError> {
    let x: f64 = kani::any();
    kani::assume(!x.is_nan() && x >= 0.0);
    Ok(x)
}
fn hex_digit(c: u8) -> Option<u128> {
    match c {
        b'0'..=b'9' => Some((c - b'0') as u128),
        b'a'..=b'f' => Some((c - b'a' + 10) as u128),
        b'A'..=b'F' => Some((c - b'A' + 10) as u128),
        _ => None,
    }
}

/// "0x" + n <= 33 symbolic hex digits: the compiler must not crash and an accepted literal has its exact value
#[kani::proof]
#[kani::unwind(37)]
#[kani::stub(<f64 as std::str::FromStr>::from_str, any_f64_parse)]
#[kani::stub(str::contains, contains_ascii_char)]
fn c12_hex_literal() {
    const MAXN: usize = 33;
    // the length is concrete (searching a string of symbolic length for `_` does not finish); leading zeros give every shorter value
    let n: usize = MAXN;
    let mut buf = [b'0'; MAXN + 2];
    buf[1] = b'x';
    let digits: [u8; MAXN] = kani::any();
    let mut value: u128 = 0;
    let mut overflow = false;
    let mut i = 0;
    while i < MAXN {
        if i < n {
            let d = hex_digit(digits[i]);
            kani::assume(d.is_some());
            buf[i + 2] = digits[i];
            if value >> 124 != 0 {
                overflow = true;
            }
            value = (value << 4) | d.unwrap();
        }
        i += 1;
    }
    #[cfg(verif_kf_literal_overflow)]
    kani::assume(!overflow && value <= i128::MAX as u128);
    let s = unsafe { std::str::from_utf8_unchecked(&buf[..n + 2]) };
    crate::trace!(literal = s);
    let r = number_any(Input(s));
    match r {
        Ok(XStaticExpr::LiteralInt(v)) => {
            assert!(!overflow && value <= i128::MAX as u128 && v == value as i128, "hex literal has its exact value");
        }
        Ok(XStaticExpr::LiteralFloat(_)) => assert!(false, "a hex literal is an integer"),
        Err(()) => {}
    }
    kani::cover!(!overflow && value > u64::MAX as u128 && value <= i128::MAX as u128, "wide hex literal accepted");
    kani::cover!(value == 0, "all zeros");
}

/// 39-digit decimal literals around i128::MAX (the first 36 digits are those of i128::MAX, the last 3 are symbolic;
/// a fully symbolic 39-digit parse does not finish): an all-digit literal is an integer with its exact value
#[kani::proof]
#[kani::unwind(44)]
#[kani::stub(<f64 as std::str::FromStr>::from_str, any_f64_value)]
#[kani::stub(str::contains, contains_ascii_char)]
fn c14_decimal_literal() {
    // i128::MAX = 170141183460469231731687303715884105727
    let mut buf = *b"170141183460469231731687303715884105727";
    let tail: [u8; 3] = kani::any();
    kani::assume(tail[0] >= b'0' && tail[0] <= b'9' && tail[1] >= b'0' && tail[1] <= b'9' && tail[2] >= b'0' && tail[2] <= b'9');
    buf[36] = tail[0];
    buf[37] = tail[1];
    buf[38] = tail[2];
    let t = (tail[0] - b'0') as u128 * 100 + (tail[1] - b'0') as u128 * 10 + (tail[2] - b'0') as u128;
    let value: u128 = 170141183460469231731687303715884105000 + t;
    #[cfg(verif_kf_literal_overflow)]
    kani::assume(value <= i128::MAX as u128);
    let s = unsafe { std::str::from_utf8_unchecked(&buf) };
    crate::trace!(literal = s);
    let r = number_any(Input(s));
    match r {
        Ok(XStaticExpr::LiteralInt(v)) => {
            assert!(value <= i128::MAX as u128 && v == value as i128, "decimal literal has its exact value");
        }
        Ok(XStaticExpr::LiteralFloat(_)) => assert!(false, "an all-digit literal is an integer, not a float"),
        Err(()) => {}
    }
    kani::cover!(t == 727, "i128::MAX itself");
    #[cfg(not(verif_kf_literal_overflow))]
    kani::cover!(t == 728, "i128::MAX + 1");
}

/// <mantissa digit> e <exponent digits>: a float literal the compiler accepts is finite
#[kani::proof]
#[kani::unwind(8)]
#[kani::stub(<f64 as std::str::FromStr>::from_str, any_f64_value)]
#[kani::stub(str::contains, contains_ascii_char)]
fn c13_float_literal() {
    let m: u8 = kani::any();
    let e: [u8; 3] = kani::any();
    kani::assume(m >= b'1' && m <= b'9');
    kani::assume(e[0] >= b'0' && e[0] <= b'9' && e[1] >= b'0' && e[1] <= b'9' && e[2] >= b'0' && e[2] <= b'9');
    let buf = [m, b'e', e[0], e[1], e[2]];
    let s = unsafe { std::str::from_utf8_unchecked(&buf) };
    crate::trace!(literal = s);
    match number_any(Input(s)) {
        Ok(XStaticExpr::LiteralFloat(f)) => {
            #[cfg(verif_kf_literal_inf)]
            kani::assume(f.is_finite());
            assert!(f.is_finite(), "an accepted float literal is finite");
        }
        Ok(XStaticExpr::LiteralInt(_)) => assert!(false, "a literal with an exponent is a float"),
        Err(()) => {}
    }
}
