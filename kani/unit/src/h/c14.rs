//! C14 — every LazyBigint operation against exact i128 arithmetic.
//! Operands: arbitrary canonical LazyBigint with |v| < 2^100 (Short(any i64) or Long outside i64).
//! Oracle: val(result) == exact expression AND result canonical (Long iff outside i64).
use crate::lazy_bigint::LazyBigint;
use num_bigint::BigInt;
use num_traits::{FromPrimitive, One, Pow, Signed, ToPrimitive, Zero};
use std::cmp::Ordering;
use std::convert::TryFrom;

const LIM: i128 = 1i128 << 100;

fn any_canonical() -> LazyBigint {
    if kani::any() {
        LazyBigint::Short(kani::any())
    } else {
        let v: i128 = kani::any();
        kani::assume(v > i64::MAX as i128 || v < i64::MIN as i128);
        kani::assume(v > -LIM && v < LIM);
        LazyBigint::Long(BigInt(v))
    }
}
fn mk(v: i128) -> LazyBigint {
    match i64::try_from(v) {
        Ok(s) => LazyBigint::Short(s),
        Err(_) => LazyBigint::Long(BigInt(v)),
    }
}
fn val(x: &LazyBigint) -> i128 {
    match x {
        LazyBigint::Short(s) => *s as i128,
        LazyBigint::Long(b) => b.0,
    }
}
fn canonical(x: &LazyBigint) -> bool {
    match x {
        LazyBigint::Short(_) => true,
        LazyBigint::Long(b) => b.0 > i64::MAX as i128 || b.0 < i64::MIN as i128,
    }
}
fn is_long(x: &LazyBigint) -> bool {
    matches!(x, LazyBigint::Long(_))
}
fn floor_div(a: i128, b: i128) -> i128 {
    let q = a / b;
    if (a % b != 0) && ((a % b < 0) != (b < 0)) { q - 1 } else { q }
}
fn floor_mod(a: i128, b: i128) -> i128 {
    a - b * floor_div(a, b)
}
macro_rules! witness {
    ($a:expr, $b:expr, $r:expr) => {
        kani::cover!(is_long($a) && !is_long($b), "lhs Long rhs Short");
        kani::cover!(!is_long($a) && is_long($b), "lhs Short rhs Long");
        kani::cover!(!is_long($a) && !is_long($b) && is_long($r), "Short op Short promotes");
        kani::cover!(is_long($a) && is_long($b) && !is_long($r), "Long op Long demotes");
    };
}

#[kani::proof]
fn c14_add() {
    let a = any_canonical();
    let b = any_canonical();
    trace!(a = val(&a));
    trace!(b = val(&b));
    let r = &a + &b;
    assert!(val(&r) == val(&a) + val(&b), "value");
    assert!(canonical(&r), "canonical");
    let r2 = a.clone() + b.clone();
    assert!(r2 == r, "by-value agrees");
    witness!(&a, &b, &r);
}
#[kani::proof]
fn c14_add_assign() {
    let a = any_canonical();
    let b = any_canonical();
    trace!(a = val(&a));
    trace!(b = val(&b));
    let mut r = a.clone();
    r += &b;
    assert!(val(&r) == val(&a) + val(&b), "value");
    assert!(canonical(&r), "canonical");
    let mut r2 = a.clone();
    r2 += b.clone();
    assert!(r2 == r, "by-value agrees");
    witness!(&a, &b, &r);
}
#[kani::proof]
fn c14_add_usize() {
    let a = any_canonical();
    let n: usize = kani::any();
    let r = &a + n;
    assert!(val(&r) == val(&a) + n as i128, "value");
    assert!(canonical(&r), "canonical");
    let r2 = a.clone() + n;
    assert!(r2 == r, "by-value agrees");
    kani::cover!(n > i64::MAX as usize, "usize beyond i64");
}
#[kani::proof]
fn c14_sub() {
    let a = any_canonical();
    let b = any_canonical();
    trace!(a = val(&a));
    trace!(b = val(&b));
    let r = &a - &b;
    assert!(val(&r) == val(&a) - val(&b), "value");
    assert!(canonical(&r), "canonical");
    let r2 = a.clone() - b.clone();
    assert!(r2 == r, "by-value agrees");
    witness!(&a, &b, &r);
}
#[kani::proof]
fn c14_neg_abs_signum() {
    let a = any_canonical();
    trace!(a = val(&a));
    let n = -a.clone();
    assert!(val(&n) == -val(&a), "neg value");
    assert!(canonical(&n), "neg canonical");
    let ab = a.abs();
    assert!(val(&ab) == val(&a).abs(), "abs value");
    assert!(canonical(&ab), "abs canonical");
    let sg = a.signum();
    assert!(val(&sg) == val(&a).signum(), "signum value");
    assert!(canonical(&sg), "signum canonical");
    assert!(a.sign() as i128 == val(&a).signum(), "sign");
    assert!(a.is_positive() == (val(&a) > 0), "is_positive");
    assert!(a.is_negative() == (val(&a) < 0), "is_negative");
    assert!(a.is_zero() == (val(&a) == 0), "is_zero");
    assert!(a.is_one() == (val(&a) == 1), "is_one");
    kani::cover!(val(&a) == i64::MIN as i128, "i64::MIN");
    kani::cover!(val(&a) == -(i64::MIN as i128), "2^63");
    kani::cover!(is_long(&a) && val(&a) < 0, "negative Long");
}
#[kani::proof]
fn c14_abs_sub() {
    let a = any_canonical();
    let b = any_canonical();
    trace!(a = val(&a));
    trace!(b = val(&b));
    let r = a.abs_sub(&b);
    // xray's own definition (lazy_bigint.rs): |a - b|
    assert!(val(&r) == (val(&a) - val(&b)).abs(), "value");
    assert!(canonical(&r), "canonical");
    witness!(&a, &b, &r);
}
#[kani::proof]
fn c14_cmp_eq() {
    let a = any_canonical();
    let b = any_canonical();
    trace!(a = val(&a));
    trace!(b = val(&b));
    assert!(a.cmp(&b) == val(&a).cmp(&val(&b)), "cmp");
    assert!(a.partial_cmp(&b) == Some(val(&a).cmp(&val(&b))), "partial_cmp");
    assert!((a == b) == (val(&a) == val(&b)), "eq");
    assert!((a < b) == (val(&a) < val(&b)), "lt");
    assert!((a >= b) == (val(&a) >= val(&b)), "ge");
    kani::cover!(is_long(&a) && !is_long(&b) && val(&a) < 0, "negative Long vs Short");
    kani::cover!(is_long(&a) && is_long(&b) && a == b, "equal Longs");
}
/// Multiplicative operations: the second operand ranges over a *constant* table inside an unrolled loop
/// (symbolic x symbolic 64/128-bit multiplication and division do not finish in CBMC; constant operands do).
const T_UNIT: [i128; 4] = [-2, -1, 1, 2];
const T_POW2: [i128; 6] = [1 << 8, -(1 << 16), 1 << 20, -(1 << 27), 1 << 31, -(1 << 32)];
const T_POW2B: [i128; 4] = [1 << 40, -(1 << 50), 1 << 62, -(1 << 63)];
const T_SMALL: [i128; 6] = [-7, -3, 3, 5, 7, 10];
const T_MID: [i128; 6] = [-6, -5, -4, 4, 6, -10];
const T_ODD: [i128; 6] = [-7, -3, 3, 5, 10, 1000003];

/// Short operands restricted to 32 bits (Long operands unrestricted): used with non-power-of-two divisors, where
/// CBMC's 64-bit divider circuit with a full-width symbolic dividend does not finish
fn any_canonical_narrow() -> LazyBigint {
    let a = any_canonical();
    if let LazyBigint::Short(s) = &a {
        kani::assume(*s >= i32::MIN as i64 && *s <= i32::MAX as i64);
    }
    a
}
macro_rules! narrow_table_harness {
    ($name:ident, $table:ident, $n:expr, |$a:ident, $c:ident| $body:block) => {
        #[kani::proof]
        #[kani::unwind($n)]
        fn $name() {
            let $a = any_canonical_narrow();
            trace!(a = val(&$a));
            for $c in $table $body
        }
    };
}
macro_rules! table_harness {
    ($name:ident, $table:ident, $n:expr, |$a:ident, $c:ident| $body:block) => {
        #[kani::proof]
        #[kani::unwind($n)]
        fn $name() {
            let $a = any_canonical();
            trace!(a = val(&$a));
            for $c in $table $body
        }
    };
}
fn check_mul(a: &LazyBigint, c: i128) {
    trace!(c = c);
    let b = mk(c);
    kani::assume(val(a).abs() < (1i128 << 126) / c.abs());
    let r = a * &b;
    assert!(val(&r) == val(a) * c, "mul value");
    assert!(canonical(&r), "mul canonical");
    let r2 = &b * a;
    assert!(r2 == r, "mul commutes");
    let r3 = a.clone() * b.clone();
    assert!(r3 == r, "mul by-value agrees");
    kani::cover!(is_long(a), "Long operand");
    kani::cover!(!is_long(a) && is_long(&r), "Short times Short promotes");
}
fn check_mul_assign(a: &LazyBigint, c: i128) {
    trace!(c = c);
    let b = mk(c);
    kani::assume(val(a).abs() < (1i128 << 126) / c.abs());
    let mut r4 = a.clone();
    r4 *= &b;
    assert!(val(&r4) == val(a) * c, "mul_assign value a*=b");
    assert!(canonical(&r4), "mul_assign canonical a*=b");
    let mut r5 = b.clone();
    r5 *= a.clone();
    assert!(val(&r5) == val(a) * c, "mul_assign value b*=a");
    assert!(canonical(&r5), "mul_assign canonical b*=a");
    kani::cover!(is_long(a), "Long operand");
    kani::cover!(!is_long(a) && is_long(&r4), "Short times Short promotes");
}
table_harness!(c14_mul_unit, T_UNIT, 5, |a, c| { check_mul(&a, c); });
table_harness!(c14_mul_pow2, T_POW2, 7, |a, c| { check_mul(&a, c); });
table_harness!(c14_mul_pow2b, T_POW2B, 5, |a, c| { check_mul(&a, c); });
table_harness!(c14_mul_small, T_SMALL, 7, |a, c| { check_mul(&a, c); });
table_harness!(c14_mul_mid, T_MID, 7, |a, c| { check_mul(&a, c); });
table_harness!(c14_mul_assign_unit, T_UNIT, 5, |a, c| { check_mul_assign(&a, c); });
table_harness!(c14_mul_assign_pow2, T_POW2, 7, |a, c| { check_mul_assign(&a, c); });
table_harness!(c14_mul_assign_pow2b, T_POW2B, 5, |a, c| { check_mul_assign(&a, c); });
table_harness!(c14_mul_assign_small, T_SMALL, 7, |a, c| { check_mul_assign(&a, c); });
table_harness!(c14_mul_assign_mid, T_MID, 7, |a, c| { check_mul_assign(&a, c); });

// Division oracles avoid a second wide divider: q is checked through  a = q*c + r  with the sign/size condition on r.
fn sgn(x: i128) -> i128 { x.signum() }
fn check_div_trunc(a: &LazyBigint, c: i128) {
    trace!(c = c);
    let va = val(a);
    let t = a.clone() / mk(c);
    let r = va - val(&t) * c;
    assert!(r.abs() < c.abs() && (r == 0 || sgn(r) == sgn(va)), "div trunc value");
    assert!(canonical(&t), "div trunc canonical");
    kani::cover!(is_long(a) && !is_long(&t), "Long / Short demotes");
}
fn check_div_floor(a: &LazyBigint, c: i128) {
    trace!(c = c);
    let va = val(a);
    let f = a.clone().div_floor(mk(c));
    let r = va - val(&f) * c;
    assert!(r.abs() < c.abs() && (r == 0 || sgn(r) == sgn(c)), "div_floor value");
    assert!(canonical(&f), "div_floor canonical");
    kani::cover!(va < 0 && r != 0, "negative dividend, non-zero remainder");
}
fn check_div_ceil(a: &LazyBigint, c: i128) {
    trace!(c = c);
    let va = val(a);
    let f = a.clone().div_ceil(mk(c));
    let r = va - val(&f) * c;
    assert!(r.abs() < c.abs() && (r == 0 || sgn(r) == -sgn(c)), "div_ceil value");
    assert!(canonical(&f), "div_ceil canonical");
    kani::cover!(va < 0 && r != 0, "negative dividend, non-zero remainder");
}
// documented `mod`: floored (book std/int.md: "the result will always have same sign as b").
// m is the floored remainder iff  0 <= m*sgn(c) < |c|  and  c | (a - m); divisibility is checked against
// the implementation's own div_floor (decided by c14_div_floor_*):  a - m == c * div_floor(a, c).
fn check_rem_ref(a: &LazyBigint, c: i128) {
    trace!(c = c);
    let va = val(a);
    let m = a % &mk(c);
    let f = a.clone().div_floor(mk(c));
    assert!(val(&m).abs() < c.abs() && (val(&m) == 0 || sgn(val(&m)) == sgn(c)), "rem sign/range (ref impl)");
    assert!(va - val(&m) == c * val(&f), "rem value (ref impl)");
    assert!(canonical(&m), "rem canonical (ref impl)");
    kani::cover!(va < 0 && c > 0 && val(&m) != 0, "negative dividend");
}
fn check_rem_owned(a: &LazyBigint, c: i128) {
    trace!(c = c);
    let va = val(a);
    let m = a.clone() % mk(c);
    let f = a.clone().div_floor(mk(c));
    assert!(val(&m).abs() < c.abs() && (val(&m) == 0 || sgn(val(&m)) == sgn(c)), "rem sign/range (owned impl)");
    assert!(va - val(&m) == c * val(&f), "rem value (owned impl)");
    assert!(canonical(&m), "rem canonical (owned impl)");
    kani::cover!(va < 0 && c > 0 && val(&m) != 0, "negative dividend");
}
table_harness!(c14_div_trunc_unit, T_UNIT, 5, |a, c| { check_div_trunc(&a, c); });
table_harness!(c14_div_trunc_pow2, T_POW2, 7, |a, c| { check_div_trunc(&a, c); });
table_harness!(c14_div_trunc_pow2b, T_POW2B, 5, |a, c| { check_div_trunc(&a, c); });
narrow_table_harness!(c14_div_trunc_odd, T_ODD, 7, |a, c| { check_div_trunc(&a, c); });
table_harness!(c14_div_floor_unit, T_UNIT, 5, |a, c| { check_div_floor(&a, c); });
table_harness!(c14_div_floor_pow2, T_POW2, 7, |a, c| { check_div_floor(&a, c); });
table_harness!(c14_div_floor_pow2b, T_POW2B, 5, |a, c| { check_div_floor(&a, c); });
narrow_table_harness!(c14_div_floor_odd, T_ODD, 7, |a, c| { check_div_floor(&a, c); });
table_harness!(c14_div_ceil_unit, T_UNIT, 5, |a, c| { check_div_ceil(&a, c); });
table_harness!(c14_div_ceil_pow2, T_POW2, 7, |a, c| { check_div_ceil(&a, c); });
table_harness!(c14_div_ceil_pow2b, T_POW2B, 5, |a, c| { check_div_ceil(&a, c); });
narrow_table_harness!(c14_div_ceil_odd, T_ODD, 7, |a, c| { check_div_ceil(&a, c); });
table_harness!(c14_rem_ref_unit, T_UNIT, 5, |a, c| { check_rem_ref(&a, c); });
table_harness!(c14_rem_ref_pow2, T_POW2, 7, |a, c| { check_rem_ref(&a, c); });
table_harness!(c14_rem_ref_pow2b, T_POW2B, 5, |a, c| { check_rem_ref(&a, c); });
narrow_table_harness!(c14_rem_ref_odd, T_ODD, 7, |a, c| { check_rem_ref(&a, c); });
table_harness!(c14_rem_owned_unit, T_UNIT, 5, |a, c| { check_rem_owned(&a, c); });
table_harness!(c14_rem_owned_pow2, T_POW2, 7, |a, c| { check_rem_owned(&a, c); });
table_harness!(c14_rem_owned_pow2b, T_POW2B, 5, |a, c| { check_rem_owned(&a, c); });
narrow_table_harness!(c14_rem_owned_odd, T_ODD, 7, |a, c| { check_rem_owned(&a, c); });

/// small symbolic dividend |c| <= 7, arbitrary canonical non-zero divisor: closed-form oracle
/// (for |b| > |c|: trunc quotient 0, floored remainder c or c+b; otherwise narrow arithmetic)
fn small_dividend_case() -> (LazyBigint, LazyBigint, i128, i128, i128, i128) {
    let b = any_canonical();
    trace!(b = val(&b));
    kani::assume(!b.is_zero());
    let vb = val(&b);
    let c8: i8 = kani::any();
    kani::assume(c8 >= -7 && c8 <= 7);
    let c = c8 as i128;
    trace!(c = c);
    let (tq, fm) = if vb.abs() > c.abs() {
        (0, if c == 0 || ((c < 0) == (vb < 0)) { c } else { c + vb })
    } else {
        let (nb, nc) = (vb as i8, c as i8);
        ((nc / nb) as i128, floor_mod(nc as i128, nb as i128))
    };
    kani::cover!(is_long(&b) && vb < 0, "negative Long divisor");
    kani::cover!(!is_long(&b) && vb.abs() <= 7, "tiny divisor");
    (mk(c), b, c, vb, tq, fm)
}
#[kani::proof]
fn c14_small_dividend_rem_ref() {
    let (a, b, _c, _vb, _tq, fm) = small_dividend_case();
    let r = &a % &b;
    assert!(val(&r) == fm, "rem value (ref impl)");
    assert!(canonical(&r), "rem canonical (ref impl)");
}
#[kani::proof]
fn c14_small_dividend_rem_owned() {
    let (a, b, _c, _vb, _tq, fm) = small_dividend_case();
    let r = a % b;
    assert!(val(&r) == fm, "rem value (owned impl)");
    assert!(canonical(&r), "rem canonical (owned impl)");
}
#[kani::proof]
fn c14_small_dividend_div_trunc() {
    let (a, b, _c, _vb, tq, _fm) = small_dividend_case();
    let t = a / b;
    assert!(val(&t) == tq, "div trunc value");
    assert!(canonical(&t), "div trunc canonical");
}
#[kani::proof]
fn c14_small_dividend_div_floor() {
    let (a, b, c, vb, _tq, fm) = small_dividend_case();
    let f = a.div_floor(b);
    assert!(val(&f) * vb == c - fm, "div_floor value");
    assert!(canonical(&f), "div_floor canonical");
}
#[kani::proof]
fn c14_small_dividend_div_ceil() {
    let (a, b, c, vb, _tq, fm) = small_dividend_case();
    let f = a.div_ceil(b);
    let want_times_vb = if fm == 0 { c } else { c - fm + vb };
    assert!(val(&f) * vb == want_times_vb, "div_ceil value");
    assert!(canonical(&f), "div_ceil canonical");
}
#[kani::proof]
fn c14_bitops() {
    let a = any_canonical();
    let b = any_canonical();
    trace!(a = val(&a));
    trace!(b = val(&b));
    let x = a.clone() & b.clone();
    assert!(val(&x) == (val(&a) & val(&b)), "and value");
    assert!(canonical(&x), "and canonical");
    let o = a.clone() | b.clone();
    assert!(val(&o) == (val(&a) | val(&b)), "or value");
    assert!(canonical(&o), "or canonical");
    let e = a.clone() ^ b.clone();
    assert!(val(&e) == (val(&a) ^ val(&b)), "xor value");
    assert!(canonical(&e), "xor canonical");
    kani::cover!(is_long(&a) && is_long(&b) && !is_long(&x), "Long & Long demotes");
    kani::cover!(is_long(&a) && !is_long(&b), "mixed");
}
#[kani::proof]
#[kani::unwind(5)]
fn c14_pow_small() {
    // base: symbolic small |s| <= 10 or +-2^k (symbolic k <= 41); exponent symbolic 0..=3
    let base: i128 = if kani::any() {
        let s: i8 = kani::any();
        kani::assume(s >= -10 && s <= 10);
        s as i128
    } else {
        let k: u32 = kani::any();
        kani::assume(k <= 41);
        if kani::any() { 1i128 << k } else { -(1i128 << k) }
    };
    let e: u8 = kani::any();
    kani::assume(e <= 3);
    kani::assume(!(base == 0 && e == 0));
    trace!(a = base);
    trace!(b = e);
    let r = mk(base).pow(LazyBigint::Short(e as i64));
    let mut expect: i128 = 1;
    let mut i = 0;
    while i < e {
        expect *= base;
        i += 1;
    }
    assert!(val(&r) == expect, "pow value");
    assert!(canonical(&r), "pow canonical");
    kani::cover!(is_long(&r), "promotes");
    kani::cover!(e == 3 && base < 0, "negative cube");
}
#[kani::proof]
fn c14_from_prims() {
    let i: i64 = kani::any();
    let u: u64 = kani::any();
    let z: usize = kani::any();
    let w: i128 = kani::any();
    kani::assume(w > -LIM && w < LIM);
    let a = LazyBigint::from(i);
    assert!(val(&a) == i as i128 && canonical(&a), "from i64");
    let b = LazyBigint::from(u);
    assert!(val(&b) == u as i128 && canonical(&b), "from u64");
    let c = LazyBigint::from(z);
    assert!(val(&c) == z as i128 && canonical(&c), "from usize");
    let d = LazyBigint::from(w);
    assert!(val(&d) == w && canonical(&d), "from i128");
    let e = LazyBigint::from(BigInt(w));
    assert!(val(&e) == w && canonical(&e), "from BigInt");
    assert!(LazyBigint::from_i64(i).map(|v| val(&v)) == Some(i as i128), "from_i64");
    assert!(LazyBigint::from_u64(u).map(|v| val(&v)) == Some(u as i128), "from_u64");
    kani::cover!(u > i64::MAX as u64, "u64 beyond i64");
    kani::cover!(is_long(&d), "i128 Long");
}
#[kani::proof]
fn c14_to_prims() {
    let a = any_canonical();
    let v = val(&a);
    assert!(a.to_i64() == i64::try_from(v).ok(), "to_i64");
    assert!(a.to_u64() == u64::try_from(v).ok(), "to_u64");
    assert!(i64::try_from(&a).ok() == i64::try_from(v).ok(), "TryFrom<&> i64");
    assert!(u64::try_from(&a).ok() == u64::try_from(v).ok(), "TryFrom<&> u64");
    assert!(i64::try_from(a.clone()).ok() == i64::try_from(v).ok(), "TryFrom i64");
    assert!(u64::try_from(a.clone()).ok() == u64::try_from(v).ok(), "TryFrom u64");
    let fd = a.first_u64_digit();
    assert!(val(&fd) == (v.unsigned_abs() as u64) as i128 || !is_long(&a), "first_u64_digit of Long = low limb of magnitude");
    assert!(canonical(&fd), "first_u64_digit canonical");
    kani::cover!(is_long(&a) && v > 0 && v <= u64::MAX as i128, "Long that fits u64");
}
#[kani::proof]
fn c14_hash_key() {
    // the `hash` native (int.rs): v if it fits u64, else first_u64_digit(v).  Equal ints => equal keys; key in [0, 2^64)
    let a = any_canonical();
    let b = any_canonical();
    trace!(a = val(&a));
    trace!(b = val(&b));
    let key = |x: &LazyBigint| -> LazyBigint { if x.to_u64().is_some() { x.clone() } else { x.first_u64_digit() } };
    let ka = key(&a);
    let kb = key(&b);
    if a == b {
        assert!(ka == kb, "equal ints equal keys");
    }
    assert!(val(&ka) >= 0 && val(&ka) <= u64::MAX as i128, "key range");
    assert!(canonical(&ka), "key canonical");
    kani::cover!(is_long(&a) && val(&a) < 0, "negative Long");
}
#[kani::proof]
fn c14_from_f64() {
    let f: f64 = kani::any();
    kani::assume(f.is_finite() && f.abs() < 1.2676506002282294e30); // 2^100
    match LazyBigint::from_f64(f) {
        Some(v) => {
            assert!(f.fract() == 0.0, "only integral floats convert");
            assert!(val(&v) == f as i128, "value");
            assert!(canonical(&v), "canonical");
            kani::cover!(is_long(&v), "Long from float");
        }
        None => assert!(f.fract() != 0.0, "integral float must convert"),
    }
}
#[kani::proof]
fn c14_to_f64_short() {
    let s: i64 = kani::any();
    let a = LazyBigint::Short(s);
    assert!(a.to_f64() == Some(s as f64), "Short to_f64");
    let v: i128 = kani::any();
    kani::assume(v > i64::MAX as i128 && v < LIM);
    let b = LazyBigint::Long(BigInt(v));
    // the model's to_f64 is `as f64` (round-to-nearest-even, same contract as num-bigint's): finite for < 2^1024
    assert!(b.to_f64().map_or(false, |x| x.is_finite()), "Long to_f64 finite");
}
#[kani::proof]
#[kani::unwind(8)]
fn c14_range() {
    let n: i64 = kani::any();
    kani::assume(n <= 5);
    let a = LazyBigint::Short(n);
    let mut count: i128 = 0;
    for (i, v) in a.range().into_iter().enumerate() {
        assert!(val(&v) == i as i128, "range element");
        count += 1;
    }
    assert!(count == if n > 0 { n as i128 } else { 0 }, "range length");
    kani::cover!(n == 5, "five elements");
    kani::cover!(n < 0, "negative bound is empty");
}
