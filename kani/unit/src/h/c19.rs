//! C19 — sorting and heap are right for every comparator outcome (real trysort.rs / try_heap.rs)
use crate::runtime_violation::RuntimeViolation;
use crate::try_heap::TryHeap;
use crate::trysort::try_sort;
use crate::xvalue::{ManagedXError, XResult};
use std::rc::Rc;

type El = (u8, u8); // (key, original index)
type R = Result<Result<bool, u8>, u8>;

fn any_els<const N: usize>(key_bits: u8) -> [El; N] {
    let keys: [u8; N] = kani::any();
    let mut out = [(0u8, 0u8); N];
    let mut i = 0;
    while i < N {
        kani::assume(keys[i] < (1 << key_bits));
        out[i] = (keys[i], i as u8);
        i += 1;
    }
    out
}
fn sorted_stable(v: &[El]) -> bool {
    let mut i = 1;
    while i < v.len() {
        if v[i - 1].0 > v[i].0 || (v[i - 1].0 == v[i].0 && v[i - 1].1 > v[i].1) {
            return false;
        }
        i += 1;
    }
    true
}
fn permutation(v: &[El], orig: &[El]) -> bool {
    let mut i = 0;
    while i < orig.len() {
        let mut found = false;
        let mut j = 0;
        while j < v.len() {
            if v[j] == orig[i] {
                found = true;
            }
            j += 1;
        }
        if !found {
            return false;
        }
        i += 1;
    }
    v.len() == orig.len()
}

macro_rules! sort_harness {
    ($name:ident, $n:expr, $unwind:expr, $bits:expr, $may_fail:expr) => {
        #[kani::proof]
        #[kani::unwind($unwind)]
        fn $name() {
            let mut v: [El; $n] = any_els::<$n>($bits);
            let orig = v;
            crate::trace!(v = orig);
            let fail_at: u8 = if $may_fail { kani::any() } else { 0 };
            let fail_kind: bool = kani::any();
            crate::trace!(fail_at = fail_at);
            let mut calls: u8 = 0;
            let r = try_sort(&mut v, |a: &El, b: &El| -> R {
                calls += 1;
                if calls == fail_at {
                    return if fail_kind { Ok(Err(7)) } else { Err(9) };
                }
                Ok(Ok(a.0 < b.0))
            });
            assert!(permutation(&v, &orig), "no element lost or duplicated (also after a failing comparator)");
            match r {
                Ok(Ok(())) => {
                    assert!(fail_at == 0 || fail_at > calls, "success only if the comparator never failed");
                    assert!(sorted_stable(&v), "sorted, and equal keys keep their original order");
                }
                Ok(Err(e)) => assert!(e == 7 && fail_kind, "error value is the comparator's"),
                Err(e) => assert!(e == 9 && !fail_kind, "violation is the comparator's"),
            }
            kani::cover!(r == Ok(Ok(())), "sorted");
            kani::cover!(!$may_fail || (r == Err(9) && calls >= 2), "violation midway");
            kani::cover!(!$may_fail || r == Ok(Err(7)), "error value");
        }
    };
}
sort_harness!(c19_sort_ok_4, 4, 6, 2, false);
sort_harness!(c19_sort_fail_3, 3, 5, 2, true);
sort_harness!(c19_sort_ok_6_t, 6, 8, 2, false);
sort_harness!(c19_sort_fail_4_t, 4, 6, 2, true);

/// heap: push n then pop all: pops are ordered, nothing lost or duplicated, also under a failing comparator
#[kani::proof]
#[kani::unwind(6)]
fn c19_heap_4() {
    const N: usize = 4;
    let items: [El; N] = any_els::<N>(2);
    let n: usize = kani::any();
    kani::assume(n <= N);
    let fail_at: u8 = kani::any();
    crate::trace!(items = items);
    crate::trace!(n = n);
    crate::trace!(fail_at = fail_at);
    let mut calls: u8 = 0;
    let mut heap = TryHeap::with_capacity(N, |a: &El, b: &El| -> XResult<bool, (), (), ()> {
        calls += 1;
        if calls == fail_at {
            return Err(RuntimeViolation::Other(9));
        }
        Ok(Ok(a.0 <= b.0))
    });
    let mut failed = false;
    let mut i = 0;
    while i < n {
        match heap.push(items[i]) {
            Ok(Ok(())) => {}
            Err(RuntimeViolation::Other(9)) => {
                failed = true;
                break;
            }
            _ => assert!(false, "push yields only the comparator's violation"),
        }
        i += 1;
    }
    if !failed {
        assert!(heap.len() == n, "every pushed element is in the heap");
        let mut prev: Option<El> = None;
        let mut seen = [false; N];
        let mut popped = 0;
        let mut k = 0;
        while k < N {
            match heap.pop() {
                Ok(Ok(Some(e))) => {
                    assert!((e.1 as usize) < n && items[e.1 as usize] == e, "popped element was pushed");
                    assert!(!seen[e.1 as usize], "no element popped twice");
                    seen[e.1 as usize] = true;
                    if let Some(p) = prev {
                        assert!(p.0 >= e.0, "pops come out in non-increasing key order");
                    }
                    prev = Some(e);
                    popped += 1;
                }
                Ok(Ok(None)) => {
                    assert!(popped == n, "heap is empty only after n pops");
                    break;
                }
                Err(RuntimeViolation::Other(9)) => {
                    failed = true;
                    break;
                }
                _ => assert!(false, "pop yields only the comparator's violation"),
            }
            k += 1;
        }
        kani::cover!(!failed && popped == 4, "four elements popped in order");
    }
    kani::cover!(failed, "comparator failed");
}

/// natural-run detection of the merge-sort driver (verbatim slice): after it, v[start..end] is a non-descending run,
/// it is a permutation of what was there, everything outside start..end is untouched, and equal keys keep their order
#[kani::proof]
#[kani::unwind(8)]
fn c19_find_run_slice() {
    use crate::slices::find_run::find_run;
    const N: usize = 6;
    let mut v: [El; N] = any_els::<N>(2);
    let orig = v;
    let end: usize = kani::any();
    kani::assume(end >= 1 && end <= N);
    let fail_at: u8 = kani::any();
    let mut calls: u8 = 0;
    let r = find_run(&mut v, end, &mut |a: &El, b: &El| -> R {
        calls += 1;
        if calls == fail_at {
            return Err(9);
        }
        Ok(Ok(a.0 < b.0))
    });
    assert!(permutation(&v, &orig), "no element lost or duplicated");
    match r {
        Ok(Ok(start)) => {
            assert!(start < end, "the run is not empty");
            let mut i = start + 1;
            while i < end {
                assert!(v[i - 1].0 <= v[i].0, "the detected run is non-descending");
                i += 1;
            }
            let mut j = 0;
            while j < N {
                if j < start || j >= end {
                    assert!(v[j] == orig[j], "elements outside the run are untouched");
                }
                j += 1;
            }
            kani::cover!(end - start >= 3 && v[start] != orig[start], "a descending run was reversed");
            kani::cover!(end - start >= 3 && v[start] == orig[start], "an ascending run was kept");
        }
        Err(e) => assert!(e == 9, "the comparator's violation"),
        Ok(Err(_)) => assert!(false, "no error value was produced"),
    }
}
