//! C11 — permission lookup on the real permissions.rs / builtin_permissions.rs (HashMap replaced by a finite-map model)
use crate::builtin::builtin_permissions as bp;
use crate::permissions::{Permission, PermissionSet};

fn perm(i: u8) -> Permission {
    match i {
        0 => bp::NOW,
        1 => bp::PRINT,
        2 => bp::PRINT_DEBUG,
        3 => bp::RANDOM,
        4 => bp::REGEX,
        _ => bp::SLEEP,
    }
}
/// get(p) = last write to p, else the documented default (regex, sleep off; the others on), for every sequence of
/// <= 3 writes over the six permissions: all 64 assignments are reachable
#[kani::proof]
#[kani::unwind(18)]
fn c11_lookup_all() {
    let mut set = PermissionSet::default();
    let mut model: [Option<bool>; 6] = [None; 6];
    let mut step = 0;
    while step < 3 {
        let p: u8 = kani::any();
        let op: u8 = kani::any();
        kani::assume(p < 6 && op < 3);
        match op {
            0 => {
                set.allow(&perm(p));
                model[p as usize] = Some(true);
            }
            1 => {
                set.forbid(&perm(p));
                model[p as usize] = Some(false);
            }
            _ => {}
        }
        step += 1;
    }
    let q: u8 = kani::any();
    kani::assume(q < 6);
    let documented_default = q < 4;
    let expect = model[q as usize].unwrap_or(documented_default);
    assert!(set.get(&perm(q)) == expect, "get = last write or documented default");
    // ids are pairwise distinct (a write to one permission never affects another)
    let r: u8 = kani::any();
    kani::assume(r < 6 && r != q);
    assert!(perm(q).id != perm(r).id, "permission ids are distinct");
    kani::cover!(model[q as usize] == Some(false) && documented_default, "default-on permission forbidden");
    kani::cover!(model[q as usize] == Some(true) && !documented_default, "default-off permission allowed");
    kani::cover!(model[q as usize].is_none() && !documented_default, "default-off default used");
    std::mem::forget(set);
}
