//! C05 — overload ranking (verbatim slice of resolve_overload): a matching non-generic overload beats generic ones, which
//! beat dynamic ones; several equally ranked matches are an ambiguity error, none is a no-overload error; the outcome does
//! not depend on the order of the candidates nor on candidates that do not match
use crate::slices::overload_rank as ov;

#[derive(Clone, Copy)]
struct Cand {
    present: bool,
    dynamic: bool,
    generic: bool,
    binds: bool,
    factory_ok: bool,
}
fn any_cand() -> Cand {
    Cand { present: kani::any(), dynamic: kani::any(), generic: kani::any(), binds: kani::any(), factory_ok: kani::any() }
}
fn build(c: Cand, id: usize) -> Option<(usize, ov::OverloadWithForwardReq)> {
    if !c.present {
        return None;
    }
    Some((0, if c.dynamic {
        unsafe { ov::FACTORY[id] = (c.factory_ok, c.binds) };
        ov::OverloadWithForwardReq::Factory("dyn", match id {
            0 => ov::factory0,
            1 => ov::factory1,
            _ => ov::factory2,
        })
    } else {
        ov::OverloadWithForwardReq::Static { spec: ov::Spec { id, generic: c.generic, binds: c.binds, short_circuit_overloads: false }, cell_idx: id, forward_requirements: () }
    }))
}
fn run(order: [usize; 3], cs: [Cand; 3]) -> Result<ov::Chosen, ov::CompilationError> {
    let arr = [build(cs[order[0]], order[0]), build(cs[order[1]], order[1]), build(cs[order[2]], order[2])];
    ov::Scope.rank(arr.into_iter().flatten(), None, Some(vec![ov::Ty { unknown: false }]), None, 7)
}
#[derive(PartialEq, Clone, Copy, Debug)]
enum Want {
    Pick(usize),
    Ambiguous,
    None_,
}
fn reference(cs: [Cand; 3]) -> Want {
    // rank 0: static non-generic, 1: static generic, 2: dynamic; only candidates whose signature binds the arguments count
    let mut rank = 0;
    while rank < 3 {
        let mut n = 0;
        let mut pick = 0;
        let mut i = 0;
        while i < 3 {
            let c = cs[i];
            let matches = c.present && c.binds && if c.dynamic { c.factory_ok } else { true };
            let r = if c.dynamic { 2 } else if c.generic { 1 } else { 0 };
            if matches && r == rank {
                n += 1;
                pick = i;
            }
            i += 1;
        }
        if n == 1 {
            return Want::Pick(pick);
        }
        if n > 1 {
            return Want::Ambiguous;
        }
        rank += 1;
    }
    Want::None_
}
fn classify(r: &Result<ov::Chosen, ov::CompilationError>) -> Want {
    match r {
        Ok(c) => Want::Pick(c.0),
        Err(ov::CompilationError::AmbiguousOverload { .. }) => Want::Ambiguous,
        Err(ov::CompilationError::NoOverload { .. }) => Want::None_,
    }
}
#[kani::proof]
#[kani::unwind(5)]
fn c05_overload_ranking_slice_x() {
    let cs = [any_cand(), any_cand(), any_cand()];
    let want = reference(cs);
    let r1 = run([0, 1, 2], cs);
    assert!(classify(&r1) == want, "the unique best-ranked matching candidate is chosen; ties are ambiguity errors; no match is a no-overload error");
    kani::cover!(matches!(want, Want::Pick(_)) && cs[0].present && cs[1].present && cs[2].present, "three candidates, one winner");
    kani::cover!(want == Want::Ambiguous, "ambiguity");
    kani::cover!(want == Want::None_ && cs[0].present, "no overload although candidates exist");
    std::mem::forget(r1);
}
/// order independence on two candidates (plus an absent third): swapping them gives the same outcome
#[kani::proof]
#[kani::unwind(5)]
fn c05_overload_order_slice_x() {
    let absent = Cand { present: false, dynamic: false, generic: false, binds: false, factory_ok: false };
    let cs = [any_cand(), any_cand(), absent];
    let r1 = run([0, 1, 2], cs);
    let r2 = run([1, 0, 2], cs);
    assert!(classify(&r2) == classify(&r1), "the outcome does not depend on the order of the overloads");
    kani::cover!(matches!(classify(&r1), Want::Pick(1)), "the second candidate wins");
    std::mem::forget(r1);
    std::mem::forget(r2);
}
