//! K-unit harness crate: leaf files of /repo/src are copied unmodified into src/real/ at
//! run time by /verif/check and compiled here against the bounded i128 model of num-bigint.
#![allow(dead_code, unused_imports, unused_macros, clippy::all)]

/// prints an input of the harness when the solver's counterexample is replayed natively
/// (`RUSTFLAGS=--cfg verif_playback cargo kani playback`); expands to nothing under verification
#[macro_export]
macro_rules! trace {
    ($name:ident = $e:expr) => {
        #[cfg(verif_playback)]
        {
            println!("TRACE {}={:?}", stringify!($name), $e);
        }
    };
}

// `crate::forward_err!` is provided by including the real macro file.
#[macro_use]
#[path = "real/forward_err.rs"]
pub mod forward_err;

// shim for the three `crate::…` paths the leaf files use (listed in evidence.assumptions)
pub mod xvalue {
    /// same shape as xray's `XResult<T, W, R, T>` = RuntimeResult<Result<T, Rc<ManagedXError>>>
    pub type XResult<V, W, R, T> =
        Result<Result<V, std::rc::Rc<ManagedXError<W, R, T>>>, crate::runtime_violation::RuntimeViolation>;
    pub struct ManagedXError<W, R, T> {
        pub tag: u8,
        pub _p: std::marker::PhantomData<(W, R, T)>,
    }
}
pub mod runtime_violation {
    #[derive(Debug, Clone, Copy, PartialEq, Eq)]
    pub enum RuntimeViolation {
        MaximumSearch,
        Other(u8),
    }
}

#[path = "real/lazy_bigint.rs"]
pub mod lazy_bigint;
#[path = "real/trysort.rs"]
pub mod trysort;
#[path = "real/try_heap.rs"]
pub mod try_heap;
#[path = "real/fenced_string.rs"]
pub mod fenced_string;
// MODULES-LATER
#[cfg(kani)]
mod h;
