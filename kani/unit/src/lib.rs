#![cfg_attr(kani, feature(pattern))]
//! K-unit harness crate: leaf files of /repo/src are copied unmodified into src/real/ at
//! run time by /verif/check and compiled here against the bounded i128 model of num-bigint.
#![allow(dead_code, unused_imports, unused_macros, clippy::all)]

/// prints an input of the harness when the solver's counterexample is replayed natively
/// (`RUSTFLAGS=--cfg verif_playback cargo kani playback`); expands to nothing under verification
#[macro_export]
macro_rules! trace {
    ($name:ident = $e:expr) => {
        #[cfg(verif_playback)]
        {
            println!("TRACE {}={:?}", stringify!($name), $e);
        }
    };
}

// `crate::forward_err!` is provided by including the real macro file.
#[macro_use]
#[path = "real/forward_err.rs"]
pub mod forward_err;

// shim for the three `crate::…` paths the leaf files use (listed in evidence.assumptions)
pub mod xvalue {
    /// same shape as xray's `XResult<T, W, R, T>` = RuntimeResult<Result<T, Rc<ManagedXError>>>
    pub type XResult<V, W, R, T> =
        Result<Result<V, std::rc::Rc<ManagedXError<W, R, T>>>, crate::runtime_violation::RuntimeViolation>;
    pub struct ManagedXError<W, R, T> {
        pub tag: u8,
        pub _p: std::marker::PhantomData<(W, R, T)>,
    }
}
pub mod runtime_violation {
    #[derive(Debug, Clone, Copy, PartialEq, Eq)]
    pub enum RuntimeViolation {
        MaximumSearch,
        Other(u8),
    }
}

#[path = "real/lazy_bigint.rs"]
pub mod lazy_bigint;
#[path = "real/trysort.rs"]
pub mod trysort;
#[path = "real/try_heap.rs"]
pub mod try_heap;
#[path = "real/fenced_string.rs"]
pub mod fenced_string;
/// finite-map model standing in for std::collections::HashMap<&'static str, V> in the copy of permissions.rs:
/// an association list; keys are compared as strings are (length and bytes)
pub mod mapmodel {
    /// fixed-capacity association list (8 slots; the harness uses at most 6 distinct keys and asserts no overflow)
    #[derive(Debug)]
    pub struct HashMap<K, V> {
        slots: [Option<(K, V)>; 8],
    }
    impl<K, V> Default for HashMap<K, V> {
        fn default() -> Self {
            HashMap { slots: [None, None, None, None, None, None, None, None] }
        }
    }
    impl<V> HashMap<&'static str, V> {
        pub fn get(&self, k: &str) -> Option<&V> {
            let mut i = 0;
            while i < 8 {
                if let Some((sk, v)) = &self.slots[i] {
                    if same(sk, k) {
                        return Some(v);
                    }
                }
                i += 1;
            }
            None
        }
        pub fn insert(&mut self, k: &'static str, v: V) -> Option<V> {
            let mut i = 0;
            while i < 8 {
                match &mut self.slots[i] {
                    Some((sk, sv)) => {
                        if same(sk, k) {
                            return Some(std::mem::replace(sv, v));
                        }
                    }
                    None => {
                        self.slots[i] = Some((k, v));
                        return None;
                    }
                }
                i += 1;
            }
            panic!("mapmodel: capacity exceeded")
        }
    }
    /// string equality, written without memcmp: same length and the same bytes (ids are <= 16 bytes here)
    fn same(a: &str, b: &str) -> bool {
        if a.len() != b.len() || a.len() > 16 {
            return a.len() == b.len() && a == b;
        }
        let (x, y) = (a.as_bytes(), b.as_bytes());
        let mut i = 0;
        while i < 16 {
            if i < x.len() && x[i] != y[i] {
                return false;
            }
            i += 1;
        }
        true
    }
}
#[path = "real/permissions_mapmodel.rs"]
pub mod permissions;
#[path = "real/builtin_mod.rs"]
pub mod builtin;
#[path = "real/units.rs"]
pub mod units;
/// source slices (see /verif/kani/unit/slices and vlib/slices.py)
#[path = "real/slices_mod.rs"]
pub mod slices;
// MODULES-LATER
#[cfg(kani)]
mod h;
