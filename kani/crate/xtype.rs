// appended to src/xtype.rs — C04: assignability (bind_in_assignment) and least common types (common_type) against a
// reference relation over a symbolic universe of types of depth <= 2
use crate::util::special_prefix_interner::SpecialPrefixSymbol;

/// leaf types of the universe
#[derive(Clone, Copy, PartialEq, Debug)]
enum L {
    Int,
    Bool,
    Str,
    Unknown,
    GenT,
    GenU,
}
/// types of depth <= 2: a leaf, a tuple of <= 2 leaves, or a callable with <= 2 leaf parameters and a leaf result
#[derive(Clone, Copy, PartialEq, Debug)]
enum M {
    Leaf(L),
    Tup(u8, L, L),
    Call(u8, L, L, L),
}
fn gen_id(n: usize) -> Identifier {
    SpecialPrefixSymbol::Item(n)
}
fn any_leaf() -> L {
    match kani::any::<u8>() % 6 {
        0 => L::Int,
        1 => L::Bool,
        2 => L::Str,
        3 => L::Unknown,
        4 => L::GenT,
        _ => L::GenU,
    }
}
fn leaf_type(l: L) -> Arc<XType> {
    Arc::new(match l {
        L::Int => XType::Int,
        L::Bool => XType::Bool,
        L::Str => XType::String,
        L::Unknown => XType::XUnknown,
        L::GenT => XType::XGeneric(gen_id(0)),
        L::GenU => XType::XGeneric(gen_id(1)),
    })
}
fn leaves(k: u8, a: L, b: L) -> Vec<Arc<XType>> {
    match k {
        0 => vec![],
        1 => vec![leaf_type(a)],
        _ => vec![leaf_type(a), leaf_type(b)],
    }
}
fn build(m: M) -> Arc<XType> {
    match m {
        M::Leaf(l) => leaf_type(l),
        M::Tup(k, a, b) => Arc::new(XType::Tuple(leaves(k, a, b))),
        M::Call(k, a, b, r) => Arc::new(XType::XCallable(XCallableSpec { param_types: leaves(k, a, b), return_type: leaf_type(r) })),
    }
}
/// reference: binding of the generic parameters T, U that makes `sup` assignable to `req`, per the documented rules
/// (identical types; the bottom type into anything; a generic parameter is bound to what it meets, consistently over
/// all occurrences; tuples and callables component-wise with exact arity)
type B = [Option<L>; 2];
fn common_leaf(a: L, b: L) -> Option<L> {
    if a == b {
        Some(a)
    } else if b == L::Unknown {
        Some(a)
    } else if a == L::Unknown {
        Some(b)
    } else {
        None
    }
}
fn mix(mut acc: B, idx: usize, t: L) -> Option<B> {
    acc[idx] = Some(match acc[idx] {
        None => t,
        Some(prev) => common_leaf(prev, t)?,
    });
    Some(acc)
}
fn assign_leaf(req: L, sup: L, acc: B) -> Option<B> {
    match (req, sup) {
        (L::GenT, L::GenT) | (L::GenU, L::GenU) => Some(acc),
        (_, L::Unknown) => Some(acc),
        (L::GenT, s) => mix(acc, 0, s),
        (L::GenU, s) => mix(acc, 1, s),
        (L::Unknown, _) => Some(acc),
        (r, s) if r == s => Some(acc),
        _ => None,
    }
}
fn assign(req: M, sup: M) -> Option<B> {
    let acc: B = [None, None];
    match (req, sup) {
        (M::Leaf(r), M::Leaf(s)) => assign_leaf(r, s, acc),
        (_, M::Leaf(L::Unknown)) => Some(acc),
        (M::Leaf(L::GenT), _) | (M::Leaf(L::GenU), _) | (M::Leaf(L::Unknown), _) => Some(acc), // binding to a compound: value checked separately
        (M::Tup(k0, a0, b0), M::Tup(k1, a1, b1)) => {
            if k0 != k1 {
                return None;
            }
            let mut acc = acc;
            if k0 >= 1 {
                acc = assign_leaf(a0, a1, acc)?;
            }
            if k0 >= 2 {
                acc = assign_leaf(b0, b1, acc)?;
            }
            Some(acc)
        }
        (M::Call(k0, a0, b0, r0), M::Call(k1, a1, b1, r1)) => {
            if k0 != k1 {
                return None;
            }
            let mut acc = acc;
            if k0 >= 1 {
                acc = assign_leaf(a0, a1, acc)?;
            }
            if k0 >= 2 {
                acc = assign_leaf(b0, b1, acc)?;
            }
            assign_leaf(r0, r1, acc)
        }
        _ => None,
    }
}
fn check_assign(req: M, sup: M) {
    let (rt_, st_) = (build(req), build(sup));
    let got = rt_.bind_in_assignment(&st_);
    let want = assign(req, sup);
    assert!(got.is_some() == want.is_some(), "accepted exactly when the documented rules make the supplied type assignable");
    if let (Some(g), Some(w)) = (&got, &want) {
        let req_is_gen_leaf = matches!(req, M::Leaf(L::GenT) | M::Leaf(L::GenU));
        let sup_compound = !matches!(sup, M::Leaf(_));
        if !(req_is_gen_leaf && sup_compound) {
            let mut i = 0;
            while i < 2 {
                match (g.get(&gen_id(i)), w[i]) {
                    (None, None) => {}
                    (Some(t), Some(l)) => assert!(**t == *leaf_type(l), "the generic parameter is bound to the type it met (least common type over all occurrences)"),
                    _ => assert!(false, "exactly the generic parameters that met a type are bound"),
                }
                i += 1;
            }
        } else {
            let idx = if req == M::Leaf(L::GenT) { 0 } else { 1 };
            assert!(g.get(&gen_id(idx)).map_or(false, |t| **t == *st_), "a generic parameter is bound to the whole supplied type");
        }
    }
    std::mem::forget(got);
    std::mem::forget(rt_);
    std::mem::forget(st_);
}
fn any_m() -> M {
    let k: u8 = kani::any();
    kani::assume(k <= 2);
    match kani::any::<u8>() % 3 {
        0 => M::Leaf(any_leaf()),
        1 => M::Tup(k, any_leaf(), any_leaf()),
        _ => M::Call(k, any_leaf(), any_leaf(), any_leaf()),
    }
}
macro_rules! c04_harness {
    ($name:ident, $req:expr) => {
        #[kani::proof]
        #[kani::stub(std::collections::hash_map::RandomState::new, stub_rs)]
        #[kani::stub(std::rc::Rc::drop_slow, leak_rc)]
        #[kani::stub(std::sync::Arc::drop_slow, leak_arc)]
        #[kani::unwind(5)]
        fn $name() {
            let k: u8 = kani::any();
            kani::assume(k <= 2);
            let req: M = ($req)(k);
            let sup = any_m();
            check_assign(req, sup);
            kani::cover!(assign(req, sup).is_some(), "assignable pair");
            kani::cover!(assign(req, sup).is_none(), "rejected pair");
        }
    };
}
c04_harness!(c04_assign_required_leaf_x, |_k: u8| M::Leaf(any_leaf()));
c04_harness!(c04_assign_required_tuple_x, |k: u8| M::Tup(k, any_leaf(), any_leaf()));
c04_harness!(c04_assign_required_callable_x, |k: u8| M::Call(k, any_leaf(), any_leaf(), any_leaf()));

/// common_type on leaves and tuples: symmetric in acceptance, idempotent, the bottom type is neutral, and both
/// operands are assignable to the result
#[kani::proof]
#[kani::stub(std::collections::hash_map::RandomState::new, stub_rs)]
#[kani::stub(std::rc::Rc::drop_slow, leak_rc)]
#[kani::stub(std::sync::Arc::drop_slow, leak_arc)]
#[kani::unwind(5)]
fn c04_common_type_x() {
    let k: u8 = kani::any();
    kani::assume(k <= 2);
    let a = if kani::any() { M::Leaf(any_leaf()) } else { M::Tup(k, any_leaf(), any_leaf()) };
    let b = if kani::any() { M::Leaf(any_leaf()) } else { M::Tup(k, any_leaf(), any_leaf()) };
    let (ta, tb) = (build(a), build(b));
    let ab = ta.common_type(&tb);
    let ba = tb.common_type(&ta);
    assert!(ab.is_some() == ba.is_some(), "common type exists symmetrically");
    let aa = ta.common_type(&ta);
    assert!(aa.map_or(false, |t| *t == *ta), "idempotent");
    if b == M::Leaf(L::Unknown) {
        assert!(ab.as_ref().map_or(false, |t| **t == *ta), "the bottom type is neutral");
    }
    if let Some(c) = &ab {
        assert!(c.bind_in_assignment(&ta).is_some() && c.bind_in_assignment(&tb).is_some(), "both operands are assignable to their common type");
        if let Some(c2) = &ba {
            assert!(**c == **c2, "commutative");
        }
    }
    kani::cover!(ab.is_some() && a != b, "distinct types with a common type");
    kani::cover!(ab.is_none(), "no common type");
    std::mem::forget(ab);
    std::mem::forget(ba);
    std::mem::forget(ta);
    std::mem::forget(tb);
}
