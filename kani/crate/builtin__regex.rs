// appended to src/builtin/regex.rs — C11 (regex constructor, denied branch)
use crate::runtime::RuntimeLimits;

fn trip_dfa_new(_pattern: &str) -> Result<DFA, regex_automata::hybrid::BuildError> {
    panic!("tripwire: the regex must not be compiled when the permission is denied")
}
native_harness! {
#[kani::stub(regex_automata::hybrid::dfa::DFA::new, trip_dfa_new)]
#[kani::unwind(4)]
fn c11_regex_denied() {
    let mut root = RootCompilationScope::<RecW, RecR, RecT>::new();
    add_regex_new(&mut root).unwrap();
    let nc = last_native(&root);
    let rt: RtRec = runtime_rec(RuntimeLimits::default());
    let ns = crate::runtime_scope::verif_kani::bare_scope();
    let args = vec![err("poison", &rt)];
    let r = nc(&args, &ns, false, rt.clone());
    let (w, c, g) = effects();
    assert!(is_permission_error(&r, builtin_permissions::REGEX.id), "default: PermissionError naming regex");
    assert!(w == 0 && c == 0 && g == 0, "denied: writer, clock and rng untouched");
    std::mem::forget(r);
    std::mem::forget(args);
    std::mem::forget(ns);
    std::mem::forget(root);
    std::mem::forget(rt);
}
}
