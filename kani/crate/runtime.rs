// appended to src/runtime.rs as `mod verif_kani` — C08 (counters, search budget), C09 (accounting step), C11 (permission lookup)
use crate::builtin::builtin_permissions as bp;
use crate::xvalue::{ManagedXError, ManagedXValue, XValue};

// ------------------------------------------------------------------------------------------------ C08
/// user-call counter: from an arbitrary pre-count c, k <= 4 calls interleaved with symbolic resets;
/// the i-th call since the last reset fails iff i >= L
#[kani::proof]
#[kani::stub(std::collections::hash_map::RandomState::new, stub_rs)]
#[kani::unwind(6)]
fn c08_call_counter() {
    let l: usize = kani::any();
    let lim = RuntimeLimits { ud_call_limit: Some(l), ..Default::default() };
    let rt: Rt = runtime(lim);
    let pre: usize = kani::any();
    kani::assume(pre < usize::MAX - 8);
    rt.stats.borrow_mut().ud_calls = pre;
    let mut since_reset: usize = pre; // calls since the last reset (the symbolic pre-state counts as `pre` earlier calls)
    let mut failed_any = false;
    for _ in 0..4 {
        let do_reset: u8 = kani::any();
        if do_reset == 1 {
            rt.reset_call_limit();
            since_reset = 0;
        } else if do_reset == 2 {
            rt.reset_ud_calls();
            since_reset = 0;
        }
        since_reset += 1;
        let r = rt.increment_call_limit();
        let must_fail = since_reset >= l;
        assert!(r.is_err() == must_fail, "call i since reset fails iff i >= L");
        if let Err(e) = r {
            assert!(matches!(e, RuntimeViolation::MaximumUDCall), "violation kind");
            failed_any = true;
        }
    }
    kani::cover!(failed_any && l > 2, "limit reached with L > 2");
    kani::cover!(!failed_any && l < 100, "budget not exhausted");
    std::mem::forget(rt);
}
#[kani::proof]
#[kani::stub(std::collections::hash_map::RandomState::new, stub_rs)]
#[kani::unwind(6)]
fn c08_call_counter_unlimited() {
    let rt: Rt = no_limits();
    for _ in 0..4 {
        assert!(rt.increment_call_limit().is_ok(), "no limit: never fails");
    }
    assert!(rt.stats.borrow().ud_calls == 0, "counter stays zero without a limit");
    std::mem::forget(rt);
}
/// search budget: yields exactly min(n, L) Ok then Err(MaximumSearch); unlimited never errs
#[kani::proof]
#[kani::stub(std::collections::hash_map::RandomState::new, stub_rs)]
#[kani::unwind(9)]
fn c08_search_iter() {
    let l: usize = kani::any();
    kani::assume(l <= 5);
    let limited: bool = kani::any();
    let lim = RuntimeLimits { maximum_search: if limited { Some(l) } else { None }, ..Default::default() };
    let mut it = lim.search_iter();
    let mut oks = 0usize;
    let mut err_at: Option<usize> = None;
    for i in 0..7 {
        match it.next() {
            Some(Ok(())) => {
                assert!(err_at.is_none(), "no Ok after the violation");
                oks += 1;
            }
            Some(Err(e)) => {
                assert!(matches!(e, RuntimeViolation::MaximumSearch), "violation kind");
                if err_at.is_none() {
                    err_at = Some(i);
                }
            }
            None => {
                assert!(err_at.is_some(), "iterator may end only after the violation");
            }
        }
    }
    if limited {
        assert!(oks == l, "exactly L elements may be examined");
        assert!(err_at == Some(l), "the (L+1)-th request is the violation");
    } else {
        assert!(oks == 7 && err_at.is_none(), "no limit: never errs");
    }
    kani::cover!(limited && l == 0, "L = 0");
    kani::cover!(limited && l == 5, "L = 5");
    kani::cover!(!limited, "unlimited");
}

// ------------------------------------------------------------------------------------------------ C09
fn msg(n: usize) -> String {
    match n {
        0 => "",
        1 => "a",
        2 => "ab",
        3 => "abc",
        _ => "abcd",
    }
    .to_string()
}
/// one allocate/drop step from an arbitrary accounted state (inductive step for histories of any length)
#[kani::proof]
#[kani::stub(std::collections::hash_map::RandomState::new, stub_rs)]
#[kani::unwind(10)]
fn c09_step_error_value() {
    let limit: usize = kani::any();
    kani::assume(limit < (1usize << 62));
    let rt: Rt = runtime(RuntimeLimits { size_limit: Some(limit), ..Default::default() });
    let pre: usize = kani::any();
    kani::assume(pre <= limit);
    rt.stats.borrow_mut().size = pre.into();
    let n: usize = kani::any();
    kani::assume(n <= 4);
    trace!(limit = limit);
    trace!(pre = pre);
    trace!(n = n);
    let r = ManagedXError::new(msg(n), rt.clone());
    match r {
        Ok(v) => {
            let now: usize = rt.stats.borrow().size.into();
            assert!(pre + n <= limit, "Ok only if it fits");
            assert!(now == pre + n, "accounted = payload");
            drop(v);
            let after: usize = rt.stats.borrow().size.into();
            assert!(after == pre, "bytes returned exactly on drop");
            kani::cover!(n == 4 && now == limit, "exact fit");
        }
        Err(e) => {
            assert!(matches!(e, RuntimeViolation::AllocationLimitReached), "violation kind");
            assert!(pre + n > limit, "Err only if it does not fit");
            let after: usize = rt.stats.borrow().size.into();
            assert!(after == pre, "failed allocation leaves nothing accounted");
            kani::cover!(n > 0, "non-empty allocation refused");
        }
    }
    std::mem::forget(rt);
}
#[kani::proof]
#[kani::stub(std::collections::hash_map::RandomState::new, stub_rs)]
#[kani::unwind(2)]
fn c09_step_scalar_value() {
    let limit: usize = kani::any();
    kani::assume(limit < (1usize << 62));
    let rt: Rt = runtime(RuntimeLimits { size_limit: Some(limit), ..Default::default() });
    let pre: usize = kani::any();
    kani::assume(pre <= limit);
    rt.stats.borrow_mut().size = pre.into();
    let v: XValue<P, P, P> = XValue::Bool(kani::any());
    let sz = v.size();
    assert!(sz >= std::mem::size_of::<XValue<P, P, P>>(), "size model covers the value itself");
    let r = ManagedXValue::new(v, rt.clone());
    match r {
        Ok(v) => {
            let now: usize = rt.stats.borrow().size.into();
            assert!(pre + sz <= limit, "Ok only if it fits");
            assert!(now == pre + sz, "accounted = size model");
            // the recursive drop glue of XValue is not explorable (DESIGN 2.2): the wrapper's Drop is the same
            // three lines as ManagedXError's, which c09_step_error_value executes
            kani::cover!(now == limit, "exact fit");
            std::mem::forget(v);
        }
        Err(e) => {
            assert!(matches!(e, RuntimeViolation::AllocationLimitReached), "violation kind");
            assert!(pre + sz > limit, "Err only if it does not fit");
            let after: usize = rt.stats.borrow().size.into();
            assert!(after == pre, "failed allocation leaves nothing accounted");
            kani::cover!(true, "allocation refused");
        }
    }
    std::mem::forget(rt);
}
/// size model of ints: a Long accounts for its limbs (no ManagedXValue, so no recursive drop glue in the harness)
#[kani::proof]
#[kani::unwind(4)]
fn c09_size_model_int() {
    let v: XValue<P, P, P> = XValue::Int(any_canonical());
    let sz = v.size();
    assert!(sz >= std::mem::size_of::<XValue<P, P, P>>(), "size model covers the value itself");
    if let XValue::Int(LazyBigint::Long(b)) = &v {
        assert!(sz >= std::mem::size_of::<XValue<P, P, P>>() + 8 * ((b.bits() as usize + 63) / 64), "a Long accounts for its limbs");
        kani::cover!(b.bits() > 64, "two-limb Long");
    }
    std::mem::forget(v);
}
/// no size limit: nothing is accounted, drops never underflow
#[kani::proof]
#[kani::stub(std::collections::hash_map::RandomState::new, stub_rs)]
#[kani::unwind(10)]
fn c09_step_unlimited() {
    let rt: Rt = no_limits();
    let n: usize = kani::any();
    kani::assume(n <= 4);
    let v = ManagedXError::new(msg(n), rt.clone());
    assert!(v.is_ok(), "no limit: allocation always succeeds");
    let now: usize = rt.stats.borrow().size.into();
    assert!(now == 0, "nothing accounted without a limit");
    drop(v);
    let after: usize = rt.stats.borrow().size.into();
    assert!(after == 0, "no underflow on drop");
    std::mem::forget(rt);
}
/// pre-flight checks: Err iff accounted + n > L; monotone in L
#[kani::proof]
#[kani::stub(std::collections::hash_map::RandomState::new, stub_rs)]
#[kani::unwind(4)]
fn c09_preflight() {
    let limit: usize = kani::any();
    kani::assume(limit < (1usize << 62));
    let rt: Rt = runtime(RuntimeLimits { size_limit: Some(limit), ..Default::default() });
    let pre: usize = kani::any();
    kani::assume(pre <= limit);
    rt.stats.borrow_mut().size = pre.into();
    let n: usize = kani::any();
    trace!(limit = limit);
    trace!(pre = pre);
    trace!(n = n);
    let r = rt.can_allocate(n);
    let fits = (pre as u128) + (n as u128) <= limit as u128;
    assert!(r.is_ok() == fits, "can_allocate: Err iff accounted + n > L");
    let r2 = rt.can_allocate_by(|| Some(n));
    assert!(r2.is_ok() == fits, "can_allocate_by agrees");
    assert!(rt.can_allocate_by(|| None).is_ok(), "unknown size is not refused");
    let after: usize = rt.stats.borrow().size.into();
    assert!(after == pre, "pre-flight does not account anything");
    // monotone in L
    let limit2: usize = kani::any();
    kani::assume(limit2 >= limit && limit2 < (1usize << 62));
    let rt2: Rt = runtime(RuntimeLimits { size_limit: Some(limit2), ..Default::default() });
    rt2.stats.borrow_mut().size = pre.into();
    if r.is_ok() {
        assert!(rt2.can_allocate(n).is_ok(), "raising L never turns Ok into Err");
    }
    kani::cover!(n > (1usize << 63), "huge request");
    kani::cover!(r.is_ok() && n > 0, "fits");
    std::mem::forget(rt);
    std::mem::forget(rt2);
}
/// prospective size of an int never exceeds what the value will be accounted for, and is monotone enough
/// for the call sites' arithmetic (max, +, saturating difference) not to overflow
#[kani::proof]
#[kani::unwind(4)]
fn c09_prospective_int() {
    let a = any_canonical();
    let b = any_canonical();
    let (pa, pb) = (a.prospective_size(), b.prospective_size());
    assert!(pa <= 16 && pb <= 16, "prospective size of |v| < 2^100 is at most 16 bytes");
    assert!(pa >= 8 || matches!(a, LazyBigint::Long(_)), "a Short is accounted as one word");
    let _ = std::cmp::max(pa, pb);
    let _ = pa + pb;
    let _ = pa.saturating_sub(pb);
    kani::cover!(matches!(a, LazyBigint::Long(_)), "Long");
}

// ------------------------------------------------------------------------------------------------ C11
fn perm(i: u8) -> crate::permissions::Permission {
    match i % 6 {
        0 => bp::NOW,
        1 => bp::PRINT,
        2 => bp::PRINT_DEBUG,
        3 => bp::RANDOM,
        4 => bp::REGEX,
        _ => bp::SLEEP,
    }
}
/// check_permission mirrors the set: Err(PermissionError(id)) iff !get.  (The lookup itself is decided in the K-unit
/// harness c11_lookup_all on a finite-map model: hashbrown does not finish in CBMC.)  Here the set is the default one.
#[kani::proof]
#[kani::stub(std::collections::hash_map::RandomState::new, stub_rs)]
#[kani::unwind(8)]
fn c11_check_permission_default() {
    let lim = RuntimeLimits::default();
    let q: u8 = kani::any();
    kani::assume(q < 6);
    let expect = q < 4;
    match lim.check_permission(&perm(q)) {
        Ok(()) => assert!(expect, "check passes only when enabled by default"),
        Err(RuntimeViolation::PermissionError(id)) => {
            assert!(!expect, "check fails only when disabled by default");
            assert!(id.as_ptr() == perm(q).id.as_ptr() && id.len() == perm(q).id.len(), "violation names the permission");
        }
        Err(_) => assert!(false, "violation kind"),
    }
    kani::cover!(q == 4, "regex refused by default");
    kani::cover!(q == 0, "now allowed by default");
    std::mem::forget(lim);
}
