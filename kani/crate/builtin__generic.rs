// appended to src/builtin/generic.rs — C11 (debug, sleep)
use crate::permissions::PermissionSet;
use crate::runtime::RuntimeLimits;

/// `debug`: with print_debug denied the call is a PermissionError("print_debug") and nothing is written;
/// with it granted the value is written exactly once and returned
native_harness! {
#[kani::unwind(4)]
fn c11_debug() {
    let mut root = RootCompilationScope::<RecW, RecR, RecT>::new();
    add_generic_debug(&mut root).unwrap();
    let nc = last_native(&root);
    let deny: bool = kani::any();
    let mut set = PermissionSet::default();
    if deny {
        set.forbid(&builtin_permissions::PRINT_DEBUG);
    }
    let rt: RtRec = runtime_rec(RuntimeLimits { permissions: set, ..Default::default() });
    let ns = crate::runtime_scope::verif_kani::bare_scope();
    let args = vec![val(XValue::Bool(kani::any()), &rt)];
    let r = nc(&args, &ns, false, rt.clone());
    let (w, c, g) = effects();
    if deny {
        assert!(is_permission_error(&r, builtin_permissions::PRINT_DEBUG.id), "denied: PermissionError naming print_debug");
        assert!(w == 0 && c == 0 && g == 0, "denied: writer, clock and rng untouched");
    } else {
        assert!(r.is_ok(), "granted: no violation");
        assert!(w == 1 && c == 0 && g == 0, "granted: exactly one write, clock and rng untouched");
    }
    kani::cover!(deny, "denied");
    kani::cover!(!deny, "granted");
    std::mem::forget(r);
    std::mem::forget(args);
    std::mem::forget(ns);
    std::mem::forget(root);
    std::mem::forget(rt);
}
}
/// `__std_sleep`: denied by default -> PermissionError("sleep") before anything else happens
native_harness! {
#[kani::unwind(4)]
fn c11_sleep_denied() {
    let mut root = RootCompilationScope::<RecW, RecR, RecT>::new();
    add_generic_priv_sleep(&mut root).unwrap();
    let nc = last_native(&root);
    let rt: RtRec = runtime_rec(RuntimeLimits::default());
    let ns = crate::runtime_scope::verif_kani::bare_scope();
    // poisoned arguments: evaluating them would be a (different) failure
    let args = vec![err("poison", &rt), err("poison", &rt)];
    let r = nc(&args, &ns, false, rt.clone());
    let (w, c, g) = effects();
    assert!(is_permission_error(&r, builtin_permissions::SLEEP.id), "default: PermissionError naming sleep");
    assert!(w == 0 && c == 0 && g == 0, "denied: writer, clock and rng untouched");
    std::mem::forget(r);
    std::mem::forget(args);
    std::mem::forget(ns);
    std::mem::forget(root);
    std::mem::forget(rt);
}
}

// ------------------------------------------------------------------------------------------------ C06 / C07
/// `if(c, a, b)`: an error condition is returned and neither branch is evaluated; otherwise exactly the selected
/// branch is evaluated, it alone receives the caller's tail flag, and its outcome (value or error) is the result
native_harness_rec! {
#[kani::unwind(4)]
fn c06_if_native() {
    let mut root = RootCompilationScope::<P, P, P>::new();
    add_generic_if(&mut root).unwrap();
    let nc = last_native(&root);
    let rt: Rt = no_limits();
    let ns = crate::runtime_scope::verif_kani::bare_scope();
    let cond_err: bool = kani::any();
    let c: bool = kani::any();
    let (ea, eb): (bool, bool) = (kani::any(), kani::any());
    let tca: bool = kani::any();
    let args = vec![
        if cond_err { err_i(0, &rt) } else { val(XValue::Bool(c), &rt) },
        if ea { err_i(1, &rt) } else { int(LazyBigint::Short(11), &rt) },
        if eb { err_i(2, &rt) } else { int(LazyBigint::Short(12), &rt) },
    ];
    let r = nc(&args, &ns, tca, rt.clone());
    let (n, tags, tails) = eval_log();
    let got = outcome_tag(&r);
    if cond_err {
        assert!(got == Some(err_tag(0)), "an error condition propagates");
        assert!(n == 1 && !tails[0], "no branch is evaluated when the condition is an error");
    } else {
        let want = if c { if ea { err_tag(1) } else { 11 } } else { if eb { err_tag(2) } else { 12 } };
        assert!(got == Some(want), "the result is the selected branch's outcome");
        assert!(n == 2, "exactly the condition and the selected branch are evaluated");
        assert!(tags[0] == 1000 + c as i64 && !tails[0], "the condition is evaluated first, never in tail position");
        assert!(tags[1] == want && tails[1] == tca, "the selected branch receives the caller's tail flag");
    }
    kani::cover!(!cond_err && c && tca, "then-branch in tail position");
    kani::cover!(!cond_err && !c && eb, "else-branch is an error value");
    kani::cover!(cond_err, "error condition");
    std::mem::forget(r);
    std::mem::forget(args);
    std::mem::forget(ns);
    std::mem::forget(root);
    std::mem::forget(rt);
}
}
/// `if_error(a, b)`: a non-error first argument is returned without evaluating the second; otherwise the second is
/// evaluated (with the caller's tail flag) and is the result
native_harness_rec! {
#[kani::unwind(4)]
fn c06_if_error_native() {
    let mut root = RootCompilationScope::<P, P, P>::new();
    add_generic_if_error(&mut root).unwrap();
    let nc = last_native(&root);
    let rt: Rt = no_limits();
    let ns = crate::runtime_scope::verif_kani::bare_scope();
    let (ea, eb): (bool, bool) = (kani::any(), kani::any());
    let tca: bool = kani::any();
    let args = vec![
        if ea { err_i(1, &rt) } else { int(LazyBigint::Short(11), &rt) },
        if eb { err_i(2, &rt) } else { int(LazyBigint::Short(12), &rt) },
    ];
    let r = nc(&args, &ns, tca, rt.clone());
    let (n, tags, tails) = eval_log();
    let got = outcome_tag(&r);
    if !ea {
        assert!(got == Some(11) && n == 1, "a value is returned as is; the handler is not evaluated");
    } else {
        assert!(got == Some(if eb { err_tag(2) } else { 12 }), "the handler's outcome replaces the error");
        assert!(n == 2 && tags[0] == err_tag(1) && !tails[0] && tails[1] == tca, "handler evaluated second, with the caller's tail flag");
    }
    kani::cover!(ea && eb, "handler is itself an error");
    kani::cover!(ea && tca, "handler in tail position");
    std::mem::forget(r);
    std::mem::forget(args);
    std::mem::forget(ns);
    std::mem::forget(root);
    std::mem::forget(rt);
}
}
/// `is_error(a)` inspects without propagating
native_harness_rec! {
#[kani::unwind(4)]
fn c06_is_error_native() {
    let mut root = RootCompilationScope::<P, P, P>::new();
    add_generic_is_error(&mut root).unwrap();
    let nc = last_native(&root);
    let rt: Rt = no_limits();
    let ns = crate::runtime_scope::verif_kani::bare_scope();
    let ea: bool = kani::any();
    let args = vec![if ea { err_i(1, &rt) } else { int(LazyBigint::Short(11), &rt) }];
    let r = nc(&args, &ns, false, rt.clone());
    assert!(outcome_tag(&r) == Some(1000 + ea as i64), "is_error is true exactly for error values and is itself never an error");
    std::mem::forget(r);
    std::mem::forget(args);
    std::mem::forget(ns);
    std::mem::forget(root);
    std::mem::forget(rt);
}
}
