// appended to src/builtin/generic.rs — C11 (debug, sleep)
use crate::permissions::PermissionSet;
use crate::runtime::RuntimeLimits;

/// `debug`: with print_debug denied the call is a PermissionError("print_debug") and nothing is written;
/// with it granted the value is written exactly once and returned
native_harness! {
#[kani::unwind(4)]
fn c11_debug() {
    let mut root = RootCompilationScope::<RecW, RecR, RecT>::new();
    add_generic_debug(&mut root).unwrap();
    let nc = last_native(&root);
    let deny: bool = kani::any();
    let mut set = PermissionSet::default();
    if deny {
        set.forbid(&builtin_permissions::PRINT_DEBUG);
    }
    let rt: RtRec = runtime_rec(RuntimeLimits { permissions: set, ..Default::default() });
    let ns = crate::runtime_scope::verif_kani::bare_scope();
    let args = vec![val(XValue::Bool(kani::any()), &rt)];
    let r = nc(&args, &ns, false, rt.clone());
    let (w, c, g) = effects();
    if deny {
        assert!(is_permission_error(&r, builtin_permissions::PRINT_DEBUG.id), "denied: PermissionError naming print_debug");
        assert!(w == 0 && c == 0 && g == 0, "denied: writer, clock and rng untouched");
    } else {
        assert!(r.is_ok(), "granted: no violation");
        assert!(w == 1 && c == 0 && g == 0, "granted: exactly one write, clock and rng untouched");
    }
    kani::cover!(deny, "denied");
    kani::cover!(!deny, "granted");
    std::mem::forget(r);
    std::mem::forget(args);
    std::mem::forget(ns);
    std::mem::forget(root);
    std::mem::forget(rt);
}
}
/// `__std_sleep`: denied by default -> PermissionError("sleep") before anything else happens
native_harness! {
#[kani::unwind(4)]
fn c11_sleep_denied() {
    let mut root = RootCompilationScope::<RecW, RecR, RecT>::new();
    add_generic_priv_sleep(&mut root).unwrap();
    let nc = last_native(&root);
    let rt: RtRec = runtime_rec(RuntimeLimits::default());
    let ns = crate::runtime_scope::verif_kani::bare_scope();
    // poisoned arguments: evaluating them would be a (different) failure
    let args = vec![err("poison", &rt), err("poison", &rt)];
    let r = nc(&args, &ns, false, rt.clone());
    let (w, c, g) = effects();
    assert!(is_permission_error(&r, builtin_permissions::SLEEP.id), "default: PermissionError naming sleep");
    assert!(w == 0 && c == 0 && g == 0, "denied: writer, clock and rng untouched");
    std::mem::forget(r);
    std::mem::forget(args);
    std::mem::forget(ns);
    std::mem::forget(root);
    std::mem::forget(rt);
}
}
