//! helpers shared by all K-crate harness modules (module `crate::verif_common`, cfg(kani) only)
#![allow(dead_code, unused_imports, unused_macros)]
use crate::root_compilation_scope::{Declaration, RootCompilationScope};
use crate::runtime::{RTCell, RuntimeLimits};
use crate::runtime_scope::{RuntimeScope, RuntimeScopeTemplate};
use crate::util::lazy_bigint::LazyBigint;
use crate::xexpr::{TailedEvalResult, XExpr, XStaticFunction};
use crate::xvalue::{ManagedXError, ManagedXValue, NativeCallable, XValue};
use std::rc::Rc;

/// prints an input of the harness when the solver's counterexample is replayed natively
#[macro_export]
macro_rules! trace {
    ($name:ident = $e:expr) => {
        #[cfg(verif_playback)]
        {
            println!("TRACE {}={:?}", stringify!($name), $e);
        }
    };
}

pub(crate) fn stub_rs() -> std::collections::hash_map::RandomState {
    unsafe { std::mem::transmute::<(u64, u64), std::collections::hash_map::RandomState>((1, 2)) }
}

/// stands in for the regex-backed interner: injective over names that differ in length, first or last byte
pub(crate) fn stub_identifier<W, R, T>(_this: &mut RootCompilationScope<W, R, T>, name: &'static str) -> crate::Identifier {
    use string_interner::Symbol;
    let b = name.as_bytes();
    let n = if b.is_empty() { 1 } else { b.len() * 65536 + (b[0] as usize) * 256 + b[b.len() - 1] as usize };
    crate::util::special_prefix_interner::SpecialPrefixSymbol::Regular(string_interner::DefaultSymbol::try_from_usize(n).unwrap())
}

// ---- recording doubles for writer / clock / rng (C11) -------------------------------------------------------
pub(crate) static mut WRITES: usize = 0;
pub(crate) static mut CLOCK_READS: usize = 0;
pub(crate) static mut RNG_USES: usize = 0;
pub(crate) struct RecW;
impl std::io::Write for RecW {
    fn write(&mut self, buf: &[u8]) -> std::io::Result<usize> {
        unsafe { WRITES += 1 };
        Ok(buf.len())
    }
    fn flush(&mut self) -> std::io::Result<()> {
        Ok(())
    }
    /// counts the write without rendering the arguments (symbolic formatting is not explorable)
    fn write_fmt(&mut self, _args: std::fmt::Arguments<'_>) -> std::io::Result<()> {
        unsafe { WRITES += 1 };
        Ok(())
    }
}
pub(crate) struct RecT;
impl crate::time_provider::TimeProvider for RecT {
    fn unix_now(&self) -> f64 {
        unsafe { CLOCK_READS += 1 };
        1.0e9
    }
}
pub(crate) struct RecR(pub u64);
impl rand::RngCore for RecR {
    fn next_u32(&mut self) -> u32 {
        unsafe { RNG_USES += 1 };
        self.0 as u32
    }
    fn next_u64(&mut self) -> u64 {
        unsafe { RNG_USES += 1 };
        self.0
    }
    fn fill_bytes(&mut self, dest: &mut [u8]) {
        unsafe { RNG_USES += 1 };
        for d in dest.iter_mut() {
            *d = self.0 as u8;
        }
    }
    fn try_fill_bytes(&mut self, dest: &mut [u8]) -> Result<(), rand::Error> {
        self.fill_bytes(dest);
        Ok(())
    }
}
impl rand::SeedableRng for RecR {
    type Seed = [u8; 8];
    fn from_seed(seed: Self::Seed) -> Self {
        unsafe { RNG_USES += 1 };
        RecR(u64::from_le_bytes(seed))
    }
    fn from_entropy() -> Self {
        unsafe { RNG_USES += 1 };
        RecR(7)
    }
}
pub(crate) fn effects() -> (usize, usize, usize) {
    unsafe { (WRITES, CLOCK_READS, RNG_USES) }
}

pub(crate) type P = ();
pub(crate) type Rt = RTCell<P, P, P>;

pub(crate) fn runtime(limits: RuntimeLimits) -> Rt {
    limits.to_runtime((), ())
}
pub(crate) fn no_limits() -> Rt {
    runtime(RuntimeLimits::default())
}

/// a root-like scope with no cells, to call natives in
pub(crate) fn empty_scope<W: 'static, R: 'static, T: 'static>(rt: &RTCell<W, R, T>) -> Rc<RuntimeScope<'static, W, R, T>> {
    let tpl = RuntimeScopeTemplate::from_specs(1, 0, &[], None, None, vec![], rt.clone(), vec![], None).unwrap();
    RuntimeScope::from_template(tpl, None, rt.clone(), vec![]).unwrap()
}

/// the native registered last in `root` (obtained through the builtin's real `add_*` function)
pub(crate) fn last_native<W, R, T>(root: &RootCompilationScope<W, R, T>) -> NativeCallable<W, R, T> {
    match root.scope.declarations.last().unwrap() {
        Declaration::Function { func: XStaticFunction::Native(nc), .. } => nc.clone(),
        _ => panic!("harness: last declaration is not a native function"),
    }
}

pub(crate) fn int<W, R, T>(v: LazyBigint, rt: &RTCell<W, R, T>) -> XExpr<W, R, T> {
    XExpr::Dummy(Ok(ManagedXValue::new(XValue::Int(v), rt.clone()).unwrap()))
}
pub(crate) fn val<W, R, T>(v: XValue<W, R, T>, rt: &RTCell<W, R, T>) -> XExpr<W, R, T> {
    XExpr::Dummy(Ok(ManagedXValue::new(v, rt.clone()).unwrap()))
}
pub(crate) fn err<W, R, T>(tag: &'static str, rt: &RTCell<W, R, T>) -> XExpr<W, R, T> {
    XExpr::Dummy(Err(ManagedXError::new(tag, rt.clone()).unwrap()))
}

// ---- symbolic integers over the bigint model ----------------------------------------------------------------
pub(crate) const LIM: i128 = 1i128 << 100;
pub(crate) fn any_canonical() -> LazyBigint {
    if kani::any() {
        LazyBigint::Short(kani::any())
    } else {
        let v: i128 = kani::any();
        kani::assume(v > i64::MAX as i128 || v < i64::MIN as i128);
        kani::assume(v > -LIM && v < LIM);
        LazyBigint::Long(num_bigint::BigInt(v))
    }
}
pub(crate) fn mk(v: i128) -> LazyBigint {
    match i64::try_from(v) {
        Ok(s) => LazyBigint::Short(s),
        Err(_) => LazyBigint::Long(num_bigint::BigInt(v)),
    }
}
pub(crate) fn ival(x: &LazyBigint) -> i128 {
    match x {
        LazyBigint::Short(s) => *s as i128,
        LazyBigint::Long(b) => b.0,
    }
}
pub(crate) fn canonical(x: &LazyBigint) -> bool {
    match x {
        LazyBigint::Short(_) => true,
        LazyBigint::Long(b) => b.0 > i64::MAX as i128 || b.0 < i64::MIN as i128,
    }
}

// ---- runtimes with recording doubles ------------------------------------------------------------------------
pub(crate) type RtRec = RTCell<RecW, RecR, RecT>;
pub(crate) fn runtime_rec(limits: RuntimeLimits) -> RtRec {
    limits.to_runtime(RecW, RecT)
}
pub(crate) fn is_permission_error<X>(r: &Result<X, crate::runtime_violation::RuntimeViolation>, id: &'static str) -> bool {
    match r {
        Err(crate::runtime_violation::RuntimeViolation::PermissionError(got)) => got.len() == id.len() && got.as_ptr() == id.as_ptr(),
        _ => false,
    }
}

/// stands in for RootCompilationScope::add_func in native-call harnesses: keeps the registered XStaticFunction (so the
/// harness calls the builtin's real closure) and skips name/overload bookkeeping (HashMaps, interner), which the
/// harness does not use.  The spec is leaked, not dropped (recursive drop glue of XType is not explorable).
pub(crate) fn capture_add_func<W, R, T>(
    this: &mut RootCompilationScope<W, R, T>,
    _name: &'static str,
    spec: crate::xtype::XFuncSpec,
    func: XStaticFunction<W, R, T>,
) -> Result<(), crate::compile_err::CompilationError> {
    std::mem::forget(spec);
    this.scope.declarations.push(Declaration::Function { cell_idx: 0, func });
    Ok(())
}

// ---- tripwires and the restricted evaluator (DESIGN 2.3) -----------------------------------------------------
pub(crate) fn trip_to_function<W: 'static, R: 'static, T: 'static>(
    _this: &XStaticFunction<W, R, T>,
    _closure: &RuntimeScope<'_, W, R, T>,
    _rt: RTCell<W, R, T>,
) -> crate::root_runtime_scope::RuntimeResult<crate::xvalue::XFunction<W, R, T>> {
    panic!("tripwire: XStaticFunction::to_function must be unreachable in this harness")
}
/// evaluator restricted to pre-evaluated expressions; anything else is a tripwire
pub(crate) fn mini_eval<'a, W: 'static, R: 'static, T: 'static>(
    _this: &RuntimeScope<'a, W, R, T>,
    expr: &XExpr<W, R, T>,
    _rt: RTCell<W, R, T>,
    _tail: bool,
) -> crate::root_runtime_scope::RuntimeResult<TailedEvalResult<W, R, T>>
where
    'a: 'a,
{
    match expr {
        XExpr::Dummy(v) => Ok(TailedEvalResult::from(v.clone())),
        _ => panic!("tripwire: eval of a non-Dummy expression must be unreachable in this harness"),
    }
}

/// stands in for RootCompilationScope::generics_from_names: same result (one XGeneric type per name and the list of
/// their identifiers) built without the Vec -> array `try_into` of the original, on which CBMC reports spurious
/// deallocation-size failures in some harnesses (the harnesses do not depend on generic parameter names)
pub(crate) fn stub_generics_from_names<W, R, T, const N: usize>(
    this: &mut RootCompilationScope<W, R, T>,
    names: [&'static str; N],
) -> ([std::sync::Arc<crate::xtype::XType>; N], Vec<crate::Identifier>) {
    let mut ids = Vec::with_capacity(N);
    let arr = std::array::from_fn(|i| {
        let id = stub_identifier(this, names[i]);
        ids.push(id);
        std::sync::Arc::new(crate::xtype::XType::XGeneric(id))
    });
    (arr, ids)
}

/// `Rc::drop_slow` / `Arc::drop_slow` run when the last strong reference goes away; stubbing them by no-ops leaks the
/// contents instead of running their (recursive, for XValue/XExpr/XType) drop glue.  Sound for every property that does
/// not depend on the side effects of Drop; never used in the C09 accounting harnesses.
pub(crate) fn leak_rc<T: ?Sized, A: std::alloc::Allocator>(_x: &mut Rc<T, A>) {}
pub(crate) fn leak_arc<T: ?Sized, A: std::alloc::Allocator>(_x: &mut std::sync::Arc<T, A>) {}

/// a harness that calls one native obtained through its real `add_*` registration function with pre-evaluated arguments
#[macro_export]
macro_rules! native_harness {
    ($(#[$m:meta])* fn $name:ident() $body:block) => {
        #[kani::proof]
        #[kani::stub(std::collections::hash_map::RandomState::new, crate::verif_common::stub_rs)]
        #[kani::stub(crate::root_compilation_scope::RootCompilationScope::identifier, crate::verif_common::stub_identifier)]
        #[kani::stub(crate::root_compilation_scope::RootCompilationScope::add_func, crate::verif_common::capture_add_func)]
        #[kani::stub(crate::root_compilation_scope::RootCompilationScope::generics_from_names, crate::verif_common::stub_generics_from_names)]
        #[kani::stub(crate::xexpr::XStaticFunction::to_function, crate::verif_common::trip_to_function)]
        #[kani::stub(crate::runtime_scope::RuntimeScope::from_template, crate::verif_common::trip_from_template)]
        #[kani::stub(crate::runtime_scope::RuntimeScope::eval, crate::verif_common::mini_eval)]
        #[kani::stub(std::rc::Rc::drop_slow, crate::verif_common::leak_rc)]
        #[kani::stub(std::sync::Arc::drop_slow, crate::verif_common::leak_arc)]
        #[kani::stub(crate::xvalue::ManagedXValue::new, crate::xvalue::verif_kani::value_new_unlimited)]
        $(#[$m])*
        fn $name() $body
    };
}

// ---- recording evaluator: which pre-evaluated arguments a native evaluates, in which order, with which tail flag ----
pub(crate) static mut EVAL_TAGS: [i64; 8] = [0; 8];
pub(crate) static mut EVAL_TAILS: [bool; 8] = [false; 8];
pub(crate) static mut EVAL_N: usize = 0;
/// tag of a pre-evaluated argument: ints carry their value, bools 1000/1001, error values -(1 + second byte of the message)
pub(crate) fn tag_of_value<W, R, T>(v: &crate::root_runtime_scope::EvaluatedValue<W, R, T>) -> i64 {
    match v {
        Ok(m) => match &m.value {
            XValue::Int(LazyBigint::Short(s)) => *s,
            XValue::Bool(b) => 1000 + *b as i64,
            _ => 5000,
        },
        Err(e) => {
            let b = e.error.as_bytes();
            -(1 + if b.len() > 1 { b[1] as i64 } else { 0 })
        }
    }
}
pub(crate) fn rec_eval<'a, W: 'static, R: 'static, T: 'static>(
    _this: &RuntimeScope<'a, W, R, T>,
    expr: &XExpr<W, R, T>,
    _rt: RTCell<W, R, T>,
    tail: bool,
) -> crate::root_runtime_scope::RuntimeResult<TailedEvalResult<W, R, T>>
where
    'a: 'a,
{
    match expr {
        XExpr::Dummy(v) => {
            unsafe {
                if EVAL_N < 8 {
                    EVAL_TAGS[EVAL_N] = tag_of_value(v);
                    EVAL_TAILS[EVAL_N] = tail;
                }
                EVAL_N += 1;
            }
            Ok(TailedEvalResult::from(v.clone()))
        }
        _ => panic!("tripwire: eval of a non-Dummy expression must be unreachable in this harness"),
    }
}
pub(crate) fn eval_log() -> (usize, [i64; 8], [bool; 8]) {
    unsafe { (EVAL_N, EVAL_TAGS, EVAL_TAILS) }
}
/// error values "e0".."e9" (tag -(1 + '0' + i))
pub(crate) fn err_tag(i: u8) -> i64 {
    -(1 + (b'0' + i) as i64)
}
pub(crate) fn err_i<W, R, T>(i: u8, rt: &RTCell<W, R, T>) -> XExpr<W, R, T> {
    err(match i { 0 => "e0", 1 => "e1", 2 => "e2", _ => "e3" }, rt)
}

/// like native_harness!, with the recording evaluator instead of the plain restricted one
#[macro_export]
macro_rules! native_harness_rec {
    ($(#[$m:meta])* fn $name:ident() $body:block) => {
        #[kani::proof]
        #[kani::stub(std::collections::hash_map::RandomState::new, crate::verif_common::stub_rs)]
        #[kani::stub(crate::root_compilation_scope::RootCompilationScope::identifier, crate::verif_common::stub_identifier)]
        #[kani::stub(crate::root_compilation_scope::RootCompilationScope::add_func, crate::verif_common::capture_add_func)]
        #[kani::stub(crate::root_compilation_scope::RootCompilationScope::generics_from_names, crate::verif_common::stub_generics_from_names)]
        #[kani::stub(crate::xexpr::XStaticFunction::to_function, crate::verif_common::trip_to_function)]
        #[kani::stub(crate::runtime_scope::RuntimeScope::from_template, crate::verif_common::trip_from_template)]
        #[kani::stub(crate::runtime_scope::RuntimeScope::eval, crate::verif_common::rec_eval)]
        #[kani::stub(std::rc::Rc::drop_slow, crate::verif_common::leak_rc)]
        #[kani::stub(std::sync::Arc::drop_slow, crate::verif_common::leak_arc)]
        #[kani::stub(crate::xvalue::ManagedXValue::new, crate::xvalue::verif_kani::value_new_unlimited)]
        $(#[$m])*
        fn $name() $body
    };
}
/// outcome of a native call, by reference: Some(tag) for a value / error value, None otherwise
pub(crate) fn outcome_tag<W, R, T>(r: &crate::root_runtime_scope::RuntimeResult<TailedEvalResult<W, R, T>>) -> Option<i64> {
    match r {
        Ok(TailedEvalResult::Value(v)) => Some(tag_of_value(v)),
        _ => None,
    }
}

// ---- scripted callee: a native predicate/mapper whose k-th call yields the k-th scripted outcome -------------------
pub(crate) static mut CALLEE_SCRIPT: [u8; 8] = [0; 8]; // 0 = false, 1 = true, 2 = error value "e3", 3 = violation
pub(crate) static mut CALLEE_CALLS: usize = 0;
pub(crate) static mut CALLEE_ARGS: [i64; 8] = [0; 8];
pub(crate) fn scripted_predicate<W: 'static, R: 'static, T: 'static>(rt: &RTCell<W, R, T>) -> XExpr<W, R, T> {
    let f = crate::xvalue::XFunction::Native(Rc::new(
        |args: &[XExpr<W, R, T>], _ns: &RuntimeScope<'_, W, R, T>, _tca: bool, rt: RTCell<W, R, T>| {
            let k = unsafe { CALLEE_CALLS };
            unsafe {
                if k < 8 {
                    if let XExpr::Dummy(v) = &args[0] {
                        CALLEE_ARGS[k] = tag_of_value(v);
                    }
                }
                CALLEE_CALLS += 1;
            }
            match unsafe { CALLEE_SCRIPT[if k < 8 { k } else { 7 }] } {
                0 => Ok(ManagedXValue::new(XValue::Bool(false), rt)?.into()),
                1 => Ok(ManagedXValue::new(XValue::Bool(true), rt)?.into()),
                2 => Ok(TailedEvalResult::Value(Err(ManagedXError::new("e3", rt)?))),
                _ => Err(crate::runtime_violation::RuntimeViolation::MaximumUDCall),
            }
        },
    ));
    val(XValue::Function(f), rt)
}
pub(crate) fn set_script(s: [u8; 8]) {
    unsafe { CALLEE_SCRIPT = s };
}
pub(crate) fn callee_log() -> (usize, [i64; 8]) {
    unsafe { (CALLEE_CALLS, CALLEE_ARGS) }
}
pub(crate) fn trip_from_template<'a, W: 'static, R: 'static, T: 'static>(
    _template: Rc<RuntimeScopeTemplate<W, R, T>>,
    _stack_parent: Option<&'a RuntimeScope<'a, W, R, T>>,
    _rt: RTCell<W, R, T>,
    _args: Vec<crate::root_runtime_scope::EvaluatedValue<W, R, T>>,
) -> crate::root_runtime_scope::RuntimeResult<Rc<RuntimeScope<'a, W, R, T>>>
where
    'a: 'a,
{
    panic!("tripwire: no user-function frame may be created in this harness (callees are natives)")
}

/// the random source must not be reached in harnesses where the permission is denied
pub(crate) fn trip_get_rng<W, R: rand::SeedableRng, T>(_this: &mut crate::runtime::RuntimeStats<W, R, T>) -> &mut R {
    panic!("tripwire: the random source was reached although `random` is denied")
}
