// appended to src/builtin/generators.rs — C16: take/skip pipelines denote list slices, and give the same elements on every consumption
use crate::builtin::sequence::XSequence;
use crate::runtime::RuntimeLimits;
use crate::xexpr::TailedEvalResult;
use crate::root_runtime_scope::RuntimeResult;

fn gen_of<'a>(v: &'a Rc<ManagedXValue<P, P, P>>) -> Option<&'a XGenerator<P, P, P>> {
    match &v.value {
        XValue::Native(b) => b.as_ref()._as_any().downcast_ref::<XGenerator<P, P, P>>(),
        _ => None,
    }
}
fn value_of(r: RuntimeResult<TailedEvalResult<P, P, P>>) -> Option<Rc<ManagedXValue<P, P, P>>> {
    let out = match &r {
        Ok(TailedEvalResult::Value(Ok(v))) => Some(v.clone()),
        _ => None,
    };
    std::mem::forget(r);
    out
}
/// source: the generator over the array [100..105); a pipeline of three take/skip steps with symbolic amounts in a
/// symbolic order; consumed twice through the real iterator.  Oracle: the same pipeline on a plain list.
native_harness! {
#[kani::unwind(8)]
fn c16_take_skip_pipeline() {
    let rt: Rt = no_limits();
    let ns = crate::runtime_scope::verif_kani::bare_scope();
    let mut root_t = RootCompilationScope::<P, P, P>::new();
    add_generator_take(&mut root_t).unwrap();
    let take = last_native(&root_t);
    let mut root_s = RootCompilationScope::<P, P, P>::new();
    add_generator_skip(&mut root_s).unwrap();
    let skip = last_native(&root_s);
    let mk = |t: i64| ManagedXValue::new(XValue::Int(LazyBigint::Short(t)), rt.clone()).unwrap();
    let arr = ManagedXValue::new(XValue::Native(Box::new(XSequence::<P, P, P>::array(vec![mk(100), mk(101), mk(102), mk(103), mk(104)]))), rt.clone()).unwrap();
    let mut cur = ManagedXValue::new(XValue::Native(Box::new(XGenerator::<P, P, P>::FromSequence(arr))), rt.clone()).unwrap();
    // model: the window [lo, hi) of the source that is still visible
    let (mut lo, mut hi): (usize, usize) = (0, 5);
    let mut step = 0;
    while step < 3 {
        let is_take: bool = kani::any();
        let n: u8 = kani::any();
        kani::assume(n <= 6);
        let args = vec![XExpr::Dummy(Ok(cur.clone())), int(LazyBigint::Short(n as i64), &rt)];
        let r = if is_take { take(&args, &ns, false, rt.clone()) } else { skip(&args, &ns, false, rt.clone()) };
        std::mem::forget(args);
        match value_of(r) {
            Some(v) => cur = v,
            None => {
                assert!(false, "take/skip yield a generator");
                return;
            }
        }
        if is_take {
            if lo + (n as usize) < hi { hi = lo + n as usize; }
        } else {
            lo = if lo + (n as usize) < hi { lo + n as usize } else { hi };
        }
        step += 1;
    }
    let g = match gen_of(&cur) {
        Some(g) => g,
        None => {
            assert!(false, "pipeline result is a generator");
            return;
        }
    };
    let mut round = 0;
    while round < 2 {
        let mut count = 0usize;
        for item in g._iter(&ns, rt.clone()) {
            match &item {
                Ok(Ok(v)) => match &v.value {
                    XValue::Int(LazyBigint::Short(t)) => assert!(count < hi - lo && *t == 100 + (lo + count) as i64, "element i of the pipeline = element lo+i of the source"),
                    _ => assert!(false, "elements are the source's ints"),
                },
                _ => assert!(false, "no errors or violations"),
            }
            std::mem::forget(item);
            count += 1;
            if count > 6 {
                break;
            }
        }
        assert!(count == hi - lo, "the pipeline yields exactly the visible window, on every consumption");
        round += 1;
    }
    kani::cover!(hi - lo == 3 && lo == 2, "skip(2) then take(3)-like window");
    kani::cover!(hi == lo, "empty result");
    std::mem::forget(cur);
    std::mem::forget(ns);
    std::mem::forget(root_t);
    std::mem::forget(root_s);
    std::mem::forget(rt);
}
}
