// appended to src/builtin/generators.rs — C16: merging of take/skip into one Slice keeps the denoted window
use crate::builtin::sequence::XSequence;
use crate::runtime::RuntimeLimits;

/// `XGenerator::slice(base, start, end)` applied to a base that is itself a slice (or a plain generator): the result
/// denotes exactly the window of the *source* stream that skip(start) then take(end - start) of the base's window
/// denotes.  (`end` is an absolute position in the base's stream; the iterator arm's own arithmetic is decided on a
/// verbatim slice in the K-unit harness c16_slice_iter_arm.)
#[kani::proof]
#[kani::stub(std::collections::hash_map::RandomState::new, stub_rs)]
#[kani::stub(std::rc::Rc::drop_slow, leak_rc)]
#[kani::stub(std::sync::Arc::drop_slow, leak_arc)]
#[kani::stub(crate::xvalue::ManagedXValue::new, crate::xvalue::verif_kani::value_new_unlimited)]
#[kani::unwind(4)]
fn c16_slice_merge() {
    let rt: Rt = no_limits();
    let src = ManagedXValue::new(XValue::Native(Box::new(XGenerator::<P, P, P>::FromSequence(
        ManagedXValue::new(XValue::Native(Box::new(XSequence::<P, P, P>::Count)), rt.clone()).unwrap(),
    ))), rt.clone()).unwrap();
    // base window [b_lo, b_hi) of the source (b_hi = None: unbounded); base_is_slice = false means the source itself
    let base_is_slice: bool = kani::any();
    let b_lo: usize = kani::any();
    let b_hi_some: bool = kani::any();
    let b_hi: usize = kani::any();
    kani::assume(b_lo <= 1000 && b_hi <= 1000 && b_lo <= b_hi);
    let base = if base_is_slice {
        ManagedXValue::new(XValue::Native(Box::new(XGenerator::<P, P, P>::Slice(src.clone(), b_lo, if b_hi_some { Some(b_hi) } else { None }))), rt.clone()).unwrap()
    } else {
        src.clone()
    };
    let (lo0, hi0): (usize, Option<usize>) = if base_is_slice { (b_lo, if b_hi_some { Some(b_hi) } else { None }) } else { (0, None) };
    let start: usize = kani::any();
    let end_some: bool = kani::any();
    let end: usize = kani::any();
    kani::assume(start <= 1000 && end <= 1000);
    let r = XGenerator::slice(&base, start, if end_some { Some(end) } else { None });
    // model: positions of the base stream start..end  ->  source positions lo0+start .. min(hi0, lo0+end)
    let want_lo = lo0 + start;
    let want_hi: Option<usize> = match (hi0, end_some) {
        (Some(h), true) => Some(if h < lo0 + end { h } else { lo0 + end }),
        (Some(h), false) => Some(h),
        (None, true) => Some(lo0 + end),
        (None, false) => None,
    };
    match &r {
        Err(_) => assert!(start == 0 && !end_some, "the base itself is returned only for the identity slice"),
        Ok(XGenerator::Slice(inner, s, e)) => {
            assert!(!(start == 0 && !end_some), "the identity slice returns the base");
            if base_is_slice {
                assert!(Rc::ptr_eq(inner, &src), "nested slices are flattened onto the source");
                // the denoted window: [s, e) of the source, empty when e <= s
                let denoted_empty = e.map_or(false, |e| e <= *s);
                let want_empty = want_hi.map_or(false, |h| h <= want_lo);
                assert!(denoted_empty == want_empty, "emptiness of the merged window");
                if !want_empty {
                    assert!(*s == want_lo && *e == want_hi, "the merged window is the window of the source that the pipeline denotes");
                }
            } else {
                assert!(Rc::ptr_eq(inner, &base) && *s == start && *e == if end_some { Some(end) } else { None }, "a slice of a plain generator records start and end");
            }
        }
        Ok(_) => assert!(false, "slice yields a Slice"),
    }
    kani::cover!(base_is_slice && b_hi_some && end_some && b_lo + end > b_hi, "take beyond the base's end");
    kani::cover!(base_is_slice && start > 0 && end_some, "skip and take on a slice");
    std::mem::forget(r);
    std::mem::forget(base);
    std::mem::forget(src);
    std::mem::forget(rt);
}
