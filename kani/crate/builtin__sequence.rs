// appended to src/builtin/sequence.rs — C15 (sequences behave as lists), C06 (insertion of errors), C11 (sample)
use crate::runtime::RuntimeLimits;
use crate::xexpr::TailedEvalResult;
use crate::root_runtime_scope::RuntimeResult;
use crate::runtime_violation::RuntimeViolation;

fn seq_of<'a>(r: &'a RuntimeResult<TailedEvalResult<P, P, P>>) -> Option<&'a XSequence<P, P, P>> {
    match r {
        Ok(TailedEvalResult::Value(Ok(v))) => match &v.value {
            XValue::Native(b) => b.as_ref()._as_any().downcast_ref::<XSequence<P, P, P>>(),
            _ => None,
        },
        _ => None,
    }
}
fn is_error_value(r: &RuntimeResult<TailedEvalResult<P, P, P>>) -> bool {
    matches!(r, Ok(TailedEvalResult::Value(Err(_))))
}
fn int_of(v: &Rc<ManagedXValue<P, P, P>>) -> Option<i128> {
    match &v.value {
        XValue::Int(i) => Some(ival(i)),
        _ => None,
    }
}
/// array [100, 101, ..] of n <= 3 tagged ints as a managed sequence value
fn tagged_array(n: usize, rt: &Rt) -> XExpr<P, P, P> {
    let mk = |t: i64| ManagedXValue::new(XValue::Int(LazyBigint::Short(t)), rt.clone()).unwrap();
    let items = match n {
        0 => vec![],
        1 => vec![mk(100)],
        2 => vec![mk(100), mk(101)],
        _ => vec![mk(100), mk(101), mk(102)],
    };
    val(XValue::Native(Box::new(XSequence::<P, P, P>::array(items))), rt)
}

const STEPS: [i64; 6] = [1, 2, 7, -1, -3, i64::MAX];
/// `Range(start, end, step)` as the `range` native builds it (step != 0, start strictly before end in the step's
/// direction), for all i64 start/end and steps from a constant table (symbolic divisors do not finish): the length is
/// ceil(|end-start| / |step|) without arithmetic overflow, and element i is start + i*step.  The representation is a
/// local value, so its variant is concrete for symex (sequences behind Rc<dyn ..> are not explorable, DESIGN 9.2).
#[kani::proof]
#[kani::stub(std::collections::hash_map::RandomState::new, stub_rs)]
#[kani::stub(std::rc::Rc::drop_slow, leak_rc)]
#[kani::stub(std::sync::Arc::drop_slow, leak_arc)]
#[kani::stub(crate::xvalue::ManagedXValue::new, crate::xvalue::verif_kani::value_new_unlimited)]
#[kani::unwind(8)]
fn c15_range_len_get() {
    let rt: Rt = no_limits();
    let ns = crate::runtime_scope::verif_kani::bare_scope();
    let s: i64 = kani::any();
    let e: i64 = kani::any();
    let mut k = 0;
    while k < STEPS.len() {
        let st = STEPS[k];
        if (st > 0 && s < e) || (st < 0 && s > e) {
            let seq = XSequence::<P, P, P>::Range(s, e, st);
            let (s128, e128, st128) = (s as i128, e as i128, st as i128);
            let want_len: i128 = if st > 0 { (e128 - s128 + st128 - 1) / st128 } else { (s128 - e128 + (-st128) - 1) / (-st128) };
            assert!(seq.len() == Some(want_len as usize), "len(range) = ceil(distance / |step|)");
            let i: usize = kani::any();
            kani::assume((i as i128) < want_len && i < 3);
            let r = seq.get(i, &ns, rt.clone());
            match &r {
                Ok(Ok(v)) => assert!(int_of(v) == Some(s128 + (i as i128) * st128), "range[i] = start + i*step"),
                _ => assert!(false, "range element is a value"),
            }
            std::mem::forget(r);
            kani::cover!(want_len > i64::MAX as i128, "range longer than i64::MAX");
            std::mem::forget(seq);
        }
        k += 1;
    }
    std::mem::forget(ns);
    std::mem::forget(rt);
}

/// index normalisation (`value_to_idx`) on arrays of n <= 3 and on the infinite `Count`, with an arbitrary integer
/// index (Short or Long): the normalised index (negative indices count from the end) or an error value; never a crash
#[kani::proof]
#[kani::stub(std::collections::hash_map::RandomState::new, stub_rs)]
#[kani::stub(std::rc::Rc::drop_slow, leak_rc)]
#[kani::stub(std::sync::Arc::drop_slow, leak_arc)]
#[kani::stub(crate::xvalue::ManagedXValue::new, crate::xvalue::verif_kani::value_new_unlimited)]
#[kani::unwind(6)]
fn c15_index_normalisation() {
    let rt: Rt = no_limits();
    let mk = |t: i64| ManagedXValue::new(XValue::Int(LazyBigint::Short(t)), rt.clone()).unwrap();
    let n: usize = kani::any();
    kani::assume(n <= 3);
    let infinite: bool = kani::any();
    let idx = any_canonical();
    let iv = ival(&idx);
    let r = if infinite {
        let seq = XSequence::<P, P, P>::Count;
        let r = seq.value_to_idx(&idx, rt.clone());
        std::mem::forget(seq);
        r
    } else {
        let seq = match n {
            0 => XSequence::<P, P, P>::Empty,
            1 => XSequence::Array(vec![mk(100)]),
            2 => XSequence::Array(vec![mk(100), mk(101)]),
            _ => XSequence::Array(vec![mk(100), mk(101), mk(102)]),
        };
        let r = seq.value_to_idx(&idx, rt.clone());
        std::mem::forget(seq);
        r
    };
    match &r {
        Ok(Ok(i)) => {
            if infinite {
                assert!(iv >= 0 && *i as i128 == iv, "infinite sequence: non-negative indices are themselves");
            } else {
                let norm = if iv < 0 { iv + n as i128 } else { iv };
                assert!(norm >= 0 && norm < n as i128 && *i as i128 == norm, "the normalised index is in range");
            }
        }
        Ok(Err(_)) => {
            if infinite {
                assert!(iv < 0 || iv > usize::MAX as i128, "infinite sequence: only negative or unrepresentable indices are refused");
            } else {
                let norm = if iv < 0 { iv + n as i128 } else { iv };
                assert!(norm < 0 || norm >= n as i128, "only out-of-range indices are refused");
            }
        }
        Err(_) => assert!(false, "no violation"),
    }
    kani::cover!(!infinite && iv == -1 && n == 3, "last element through -1");
    kani::cover!(iv < -(1i128 << 64), "huge negative index");
    kani::cover!(infinite && iv > (1i128 << 64), "huge index into an infinite sequence");
    std::mem::forget(r);
    std::mem::forget(idx);
    std::mem::forget(rt);
}

// ------------------------------------------------------------------------------------------------ C08 / C10: search budget
/// `take_while(seq, pred)` on an array of n <= 4 with a scripted predicate and a symbolic search limit L <= 5 (or none):
/// MaximumSearch is raised exactly when more than L elements have to be examined; otherwise the result is the prefix
/// before the first element the predicate rejects; the predicate is called once per examined element, in order.
native_harness! {
#[kani::unwind(6)]
fn c08_take_while_budget_x() {
    let mut root = RootCompilationScope::<P, P, P>::new();
    add_sequence_take_while(&mut root).unwrap();
    let nc = last_native(&root);
    let l: usize = kani::any();
    let limited: bool = kani::any();
    kani::assume(l <= 5);
    let rt: Rt = runtime(RuntimeLimits { maximum_search: if limited { Some(l) } else { None }, ..Default::default() });
    let ns = crate::runtime_scope::verif_kani::bare_scope();
    let n: usize = kani::any();
    kani::assume(n >= 1 && n <= 4);
    let s4: [u8; 4] = kani::any();
    kani::assume(s4[0] <= 1 && s4[1] <= 1 && s4[2] <= 1 && s4[3] <= 1);
    let script: [u8; 8] = [s4[0], s4[1], s4[2], s4[3], 0, 0, 0, 0];
    set_script(script);
    let args = vec![tagged_array(n, &rt), scripted_predicate(&rt)];
    let r = nc(&args, &ns, false, rt.clone());
    // reference: k = index of the first rejected element (or n); examined = min(k + 1, n)
    let mut k = 0;
    while k < n && script[k] == 1 {
        k += 1;
    }
    let examined = if k < n { k + 1 } else { n };
    let (calls, seen) = callee_log();
    if limited && examined > l {
        assert!(matches!(r, Err(RuntimeViolation::MaximumSearch)), "more than L elements to examine: MaximumSearch");
        assert!(calls == l, "exactly L elements are examined before the violation");
    } else {
        assert!(calls == examined, "the predicate is called once per examined element");
        let mut j = 0;
        while j < 4 {
            if j < calls {
                assert!(seen[j] == 100 + j as i64, "elements are examined in order");
            }
            j += 1;
        }
        match seq_of(&r) {
            Some(s) => assert!(s.len() == Some(k), "the result is the prefix before the first rejected element"),
            None => assert!(false, "take_while yields a sequence"),
        }
    }
    kani::cover!(limited && examined == l, "exactly L elements examined: no violation");
    kani::cover!(limited && examined == l + 1, "L+1 elements needed: violation");
    kani::cover!(!limited && k == 4, "whole sequence accepted");
    std::mem::forget(r);
    std::mem::forget(args);
    std::mem::forget(ns);
    std::mem::forget(root);
    std::mem::forget(rt);
}
}

// ------------------------------------------------------------------------------------------------ C11: sample
/// `sample(seq, k)` with `random` denied: PermissionError("random") and the random source is never created or drawn
/// from, whatever sampling strategy the sizes select (ranges up to 3000 elements, k <= 3)
native_harness! {
#[kani::stub(crate::runtime::RuntimeStats::get_rng, trip_get_rng)]
#[kani::unwind(6)]
fn c11_sample_denied_x() {
    let mut root = RootCompilationScope::<RecW, RecR, RecT>::new();
    add_sequence_sample(&mut root).unwrap();
    let nc = last_native(&root);
    let mut set = crate::permissions::PermissionSet::default();
    set.forbid(&RANDOM);
    let rt: RtRec = runtime_rec(RuntimeLimits { permissions: set, ..Default::default() });
    let ns = crate::runtime_scope::verif_kani::bare_scope();
    let len: i64 = kani::any();
    let k: u8 = kani::any();
    kani::assume(len >= 1 && len <= 3000 && k <= 3);
    let seq = val(XValue::Native(Box::new(XSequence::<RecW, RecR, RecT>::Range(0, len, 1))), &rt);
    let args = vec![seq, int(LazyBigint::Short(k as i64), &rt)];
    let r = nc(&args, &ns, false, rt.clone());
    let (w, c, g) = effects();
    assert!(is_permission_error(&r, RANDOM.id), "denied: PermissionError naming random");
    assert!(w == 0 && c == 0 && g == 0, "denied: the random source is never touched");
    kani::cover!(len > 2000 && k == 3, "few samples from a long sequence");
    kani::cover!(len == 2 && k == 2, "whole short sequence");
    std::mem::forget(r);
    std::mem::forget(args);
    std::mem::forget(ns);
    std::mem::forget(root);
    std::mem::forget(rt);
}
}
