// appended to src/builtin/sequence.rs — C15 (sequences behave as lists), C06 (insertion of errors), C11 (sample)
use crate::runtime::RuntimeLimits;
use crate::xexpr::TailedEvalResult;
use crate::root_runtime_scope::RuntimeResult;

fn seq_of<'a>(r: &'a RuntimeResult<TailedEvalResult<P, P, P>>) -> Option<&'a XSequence<P, P, P>> {
    match r {
        Ok(TailedEvalResult::Value(Ok(v))) => match &v.value {
            XValue::Native(b) => b.as_ref()._as_any().downcast_ref::<XSequence<P, P, P>>(),
            _ => None,
        },
        _ => None,
    }
}
fn is_error_value(r: &RuntimeResult<TailedEvalResult<P, P, P>>) -> bool {
    matches!(r, Ok(TailedEvalResult::Value(Err(_))))
}
fn int_of(v: &Rc<ManagedXValue<P, P, P>>) -> Option<i128> {
    match &v.value {
        XValue::Int(i) => Some(ival(i)),
        _ => None,
    }
}
/// array [100, 101, ..] of n <= 3 tagged ints as a managed sequence value
fn tagged_array(n: usize, rt: &Rt) -> XExpr<P, P, P> {
    let mk = |t: i64| ManagedXValue::new(XValue::Int(LazyBigint::Short(t)), rt.clone()).unwrap();
    let items = match n {
        0 => vec![],
        1 => vec![mk(100)],
        2 => vec![mk(100), mk(101)],
        _ => vec![mk(100), mk(101), mk(102)],
    };
    val(XValue::Native(Box::new(XSequence::<P, P, P>::array(items))), rt)
}

const STEPS: [i64; 6] = [1, 2, 7, -1, -3, i64::MAX];
/// `range(start, end, step)`: for all i64 start/end and steps from a constant table (symbolic divisors do not finish):
/// the length is ceil(|end-start| / |step|) (0 when the range is empty), no arithmetic overflow, and element i is start + i*step
native_harness! {
#[kani::unwind(8)]
fn c15_range_len_get() {
    let mut root = RootCompilationScope::<P, P, P>::new();
    add_sequence_range(&mut root).unwrap();
    let nc = last_native(&root);
    let rt: Rt = no_limits();
    let ns = crate::runtime_scope::verif_kani::bare_scope();
    let s: i64 = kani::any();
    let e: i64 = kani::any();
    let mut k = 0;
    while k < STEPS.len() {
        let st = STEPS[k];
        let args = vec![int(LazyBigint::Short(s), &rt), int(LazyBigint::Short(e), &rt), int(LazyBigint::Short(st), &rt)];
        let r = nc(&args, &ns, false, rt.clone());
        let (s128, e128, st128) = (s as i128, e as i128, st as i128);
        let want_len: i128 = if st > 0 && s < e { (e128 - s128 + st128 - 1) / st128 } else if st < 0 && s > e { (s128 - e128 + (-st128) - 1) / (-st128) } else { 0 };
        match seq_of(&r) {
            Some(seq) => {
                assert!(seq.len() == Some(want_len as usize), "len(range) = ceil(distance / |step|)");
                if want_len > 0 {
                    let i: usize = kani::any();
                    kani::assume((i as i128) < want_len && i < 3);
                    match seq.get(i, &ns, rt.clone()) {
                        Ok(Ok(v)) => {
                            assert!(int_of(&v) == Some(s128 + (i as i128) * st128), "range[i] = start + i*step");
                            std::mem::forget(v);
                        }
                        other => {
                            assert!(false, "range element is a value");
                            std::mem::forget(other);
                        }
                    }
                }
            }
            None => assert!(false, "range yields a sequence"),
        }
        kani::cover!(want_len > i64::MAX as i128, "range longer than i64::MAX");
        kani::cover!(want_len == 0, "empty range");
        std::mem::forget(r);
        std::mem::forget(args);
        k += 1;
    }
    std::mem::forget(ns);
    std::mem::forget(root);
    std::mem::forget(rt);
}
}

/// `get(seq, i)` on arrays of n <= 3 elements with an arbitrary integer index (Short or Long): the element at the
/// normalised index (negative indices count from the end) or an error value; never a crash
native_harness! {
#[kani::unwind(6)]
fn c15_get_index() {
    let mut root = RootCompilationScope::<P, P, P>::new();
    add_sequence_get(&mut root).unwrap();
    let nc = last_native(&root);
    let rt: Rt = no_limits();
    let ns = crate::runtime_scope::verif_kani::bare_scope();
    let n: usize = kani::any();
    kani::assume(n <= 3);
    let idx = any_canonical();
    let iv = ival(&idx);
    let args = vec![tagged_array(n, &rt), int(idx, &rt)];
    let r = nc(&args, &ns, false, rt.clone());
    let norm = if iv < 0 { iv + n as i128 } else { iv };
    if norm >= 0 && norm < n as i128 {
        match &r {
            Ok(TailedEvalResult::Value(Ok(v))) => assert!(int_of(v) == Some(100 + norm), "element at the normalised index"),
            _ => assert!(false, "in-range index yields the element"),
        }
    } else {
        assert!(is_error_value(&r), "out-of-range index yields an error value");
    }
    kani::cover!(iv == -1 && n == 3, "last element through -1");
    kani::cover!(iv < -(1i128 << 64), "huge negative index");
    kani::cover!(n == 0, "empty sequence");
    std::mem::forget(r);
    std::mem::forget(args);
    std::mem::forget(ns);
    std::mem::forget(root);
    std::mem::forget(rt);
}
}

fn check_list(seq: &XSequence<P, P, P>, want: &[i128], ns: &RuntimeScope<'_, P, P, P>, rt: &Rt) {
    assert!(seq.len() == Some(want.len()), "length of the result");
    let mut i = 0;
    while i < want.len() {
        match seq.get(i, ns, rt.clone()) {
            Ok(Ok(v)) => {
                assert!(int_of(&v) == Some(want[i]), "element of the result");
                std::mem::forget(v);
            }
            other => {
                assert!(false, "element is a value");
                std::mem::forget(other);
            }
        }
        i += 1;
    }
}
/// push / insert / pop on arrays of n <= 3 with symbolic small indices: the list operation or an error value;
/// the source sequence is unchanged; inserting an error value yields that error (C06)
native_harness! {
#[kani::unwind(8)]
fn c15_push_insert_pop() {
    let rt: Rt = no_limits();
    let ns = crate::runtime_scope::verif_kani::bare_scope();
    let n: usize = kani::any();
    kani::assume(n <= 3);
    let src = tagged_array(n, &rt);
    let i8v: i8 = kani::any();
    kani::assume(i8v >= -5 && i8v <= 5);
    let iv = i8v as i128;
    let norm = if iv < 0 { iv + n as i128 } else { iv };
    let in_range = norm >= 0 && norm < n as i128;
    let model: [i128; 3] = [100, 101, 102];
    let op: u8 = kani::any();
    kani::assume(op < 3);
    let new_is_err: bool = kani::any();
    let mut root = RootCompilationScope::<P, P, P>::new();
    match op {
        0 => add_sequence_push(&mut root).unwrap(),
        1 => add_sequence_insert(&mut root).unwrap(),
        _ => add_sequence_pop(&mut root).unwrap(),
    }
    let nc = last_native(&root);
    let newv = if new_is_err { err_i(1, &rt) } else { int(LazyBigint::Short(7), &rt) };
    let args = match op {
        0 => vec![src.clone(), newv],
        1 => vec![src.clone(), int(LazyBigint::Short(i8v as i64), &rt), newv],
        _ => vec![src.clone(), int(LazyBigint::Short(i8v as i64), &rt)],
    };
    let r = nc(&args, &ns, false, rt.clone());
    let mut want = [0i128; 4];
    let mut wl = 0usize;
    if op != 2 && new_is_err {
        assert!(outcome_tag(&r) == Some(err_tag(1)), "inserting an error value yields that error, not a collection");
    } else if op == 0 {
        let mut j = 0;
        while j < n { want[wl] = model[j]; wl += 1; j += 1; }
        want[wl] = 7; wl += 1;
        match seq_of(&r) { Some(s) => check_list(s, &want[..wl], &ns, &rt), None => assert!(false, "push yields a sequence") }
    } else if !in_range {
        assert!(is_error_value(&r), "out-of-range index yields an error value");
    } else if op == 1 {
        let mut j = 0;
        while j < n { if j as i128 == norm { want[wl] = 7; wl += 1; } want[wl] = model[j]; wl += 1; j += 1; }
        match seq_of(&r) { Some(s) => check_list(s, &want[..wl], &ns, &rt), None => assert!(false, "insert yields a sequence") }
    } else {
        let mut j = 0;
        while j < n { if j as i128 != norm { want[wl] = model[j]; wl += 1; } j += 1; }
        match seq_of(&r) { Some(s) => check_list(s, &want[..wl], &ns, &rt), None => assert!(false, "pop yields a sequence") }
    }
    // the source is unchanged
    if let XExpr::Dummy(Ok(sv)) = &src {
        if let XValue::Native(b) = &sv.value {
            let s = b.as_ref()._as_any().downcast_ref::<XSequence<P, P, P>>().unwrap();
            check_list(s, &model[..n], &ns, &rt);
        }
    }
    kani::cover!(op == 2 && n == 1 && in_range, "pop the only element");
    kani::cover!(op == 2 && n == 0, "pop on the empty sequence");
    kani::cover!(op == 1 && in_range && iv < 0, "insert at a negative index");
    std::mem::forget(r);
    std::mem::forget(args);
    std::mem::forget(src);
    std::mem::forget(ns);
    std::mem::forget(root);
    std::mem::forget(rt);
}
}
