// appended to src/builtin/bool.rs — C06 / C07: and, or short-circuit; errors propagate
use crate::runtime::RuntimeLimits;
use crate::util::lazy_bigint::LazyBigint;

macro_rules! bool_sc_harness {
    ($name:ident, $add:ident, $short_on:expr) => {
        native_harness_rec! {
        #[kani::unwind(4)]
        fn $name() {
            let mut root = RootCompilationScope::<P, P, P>::new();
            $add(&mut root).unwrap();
            let nc = last_native(&root);
            let rt: Rt = no_limits();
            let ns = crate::runtime_scope::verif_kani::bare_scope();
            let (ea, eb): (bool, bool) = (kani::any(), kani::any());
            let (a, b): (bool, bool) = (kani::any(), kani::any());
            let tca: bool = kani::any();
            let args = vec![
                if ea { err_i(1, &rt) } else { val(XValue::Bool(a), &rt) },
                if eb { err_i(2, &rt) } else { val(XValue::Bool(b), &rt) },
            ];
            let r = nc(&args, &ns, tca, rt.clone());
            let (n, tags, tails) = eval_log();
            let got = outcome_tag(&r);
            if ea {
                assert!(got == Some(err_tag(1)) && n == 1, "an error first operand propagates; the second is not evaluated");
            } else if a == $short_on {
                assert!(got == Some(1000 + a as i64) && n == 1, "short circuit: the second operand is not evaluated");
            } else {
                assert!(n == 2 && tails[1] == tca && !tails[0], "second operand evaluated with the caller's tail flag");
                assert!(got == Some(if eb { err_tag(2) } else { 1000 + b as i64 }), "the result is the second operand's outcome");
            }
            kani::cover!(!ea && a == $short_on, "short circuit");
            kani::cover!(!ea && a != $short_on && eb, "second operand is an error");
            std::mem::forget(r);
            std::mem::forget(args);
            std::mem::forget(ns);
            std::mem::forget(root);
            std::mem::forget(rt);
        }
        }
    };
}
bool_sc_harness!(c06_bool_and_native, add_bool_and, false);
bool_sc_harness!(c06_bool_or_native, add_bool_or, true);

/// `then(c, v)`: is not an error handler - an error condition or an error in the selected value propagates;
/// `false.then(..)` does not evaluate its second argument
native_harness_rec! {
#[kani::unwind(4)]
fn c06_bool_then_native() {
    let mut root = RootCompilationScope::<P, P, P>::new();
    add_bool_then(&mut root).unwrap();
    let nc = last_native(&root);
    let rt: Rt = no_limits();
    let ns = crate::runtime_scope::verif_kani::bare_scope();
    let (ea, eb): (bool, bool) = (kani::any(), kani::any());
    let a: bool = kani::any();
    let args = vec![
        if ea { err_i(1, &rt) } else { val(XValue::Bool(a), &rt) },
        if eb { err_i(2, &rt) } else { int(LazyBigint::Short(12), &rt) },
    ];
    let r = nc(&args, &ns, false, rt.clone());
    let (n, _tags, _tails) = eval_log();
    let got = outcome_tag(&r);
    if ea {
        assert!(got == Some(err_tag(1)) && n == 1, "an error condition propagates; the value is not evaluated");
    } else if !a {
        assert!(n == 1 && got == Some(5000), "false.then(..) is the empty optional and does not evaluate its argument");
    } else if eb {
        assert!(got == Some(err_tag(2)), "an error in the selected value propagates: `then` is not an error handler");
    } else {
        assert!(n == 2 && got == Some(5000), "true.then(v) is an optional");
    }
    kani::cover!(!ea && a && eb, "error in the selected value");
    kani::cover!(!ea && !a, "false condition");
    std::mem::forget(r);
    std::mem::forget(args);
    std::mem::forget(ns);
    std::mem::forget(root);
    std::mem::forget(rt);
}
}
