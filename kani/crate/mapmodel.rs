//! Association-list models of std::collections::{HashMap, HashSet} (module `crate::verif_mapmodel`, cfg(kani) only).
//! In the scratch copy the `use std::collections::...` lines of xray's files are redirected here: hashbrown's SIMD group
//! probing and SipHash do not finish in CBMC even on concrete keys.  Contract kept: a finite map / set over `K: Eq`.
#![allow(dead_code)]
use std::borrow::Borrow;

#[derive(Clone, Debug)]
pub struct HashMap<K, V> {
    items: Vec<(K, V)>,
}
impl<K, V> Default for HashMap<K, V> {
    fn default() -> Self {
        HashMap { items: Vec::new() }
    }
}
impl<K: Eq, V> HashMap<K, V> {
    pub fn new() -> Self {
        Self::default()
    }
    pub fn with_capacity(_n: usize) -> Self {
        Self::default()
    }
    fn pos<Q: ?Sized + Eq>(&self, k: &Q) -> Option<usize>
    where
        K: Borrow<Q>,
    {
        let mut i = 0;
        while i < self.items.len() {
            if self.items[i].0.borrow() == k {
                return Some(i);
            }
            i += 1;
        }
        None
    }
    pub fn get<Q: ?Sized + Eq>(&self, k: &Q) -> Option<&V>
    where
        K: Borrow<Q>,
    {
        self.pos(k).map(|i| &self.items[i].1)
    }
    pub fn get_mut<Q: ?Sized + Eq>(&mut self, k: &Q) -> Option<&mut V>
    where
        K: Borrow<Q>,
    {
        match self.pos(k) {
            Some(i) => Some(&mut self.items[i].1),
            None => None,
        }
    }
    pub fn contains_key<Q: ?Sized + Eq>(&self, k: &Q) -> bool
    where
        K: Borrow<Q>,
    {
        self.pos(k).is_some()
    }
    pub fn insert(&mut self, k: K, v: V) -> Option<V> {
        match self.pos(&k) {
            Some(i) => Some(std::mem::replace(&mut self.items[i].1, v)),
            None => {
                self.items.push((k, v));
                None
            }
        }
    }
    pub fn remove<Q: ?Sized + Eq>(&mut self, k: &Q) -> Option<V>
    where
        K: Borrow<Q>,
    {
        self.pos(k).map(|i| self.items.remove(i).1)
    }
    pub fn len(&self) -> usize {
        self.items.len()
    }
    pub fn is_empty(&self) -> bool {
        self.items.is_empty()
    }
    pub fn iter(&self) -> impl Iterator<Item = (&K, &V)> + '_ {
        self.items.iter().map(|(k, v)| (k, v))
    }
    pub fn iter_mut(&mut self) -> impl Iterator<Item = (&K, &mut V)> + '_ {
        self.items.iter_mut().map(|(k, v)| (&*k, v))
    }
    pub fn keys(&self) -> impl Iterator<Item = &K> + '_ {
        self.items.iter().map(|(k, _)| k)
    }
    pub fn values(&self) -> impl Iterator<Item = &V> + '_ {
        self.items.iter().map(|(_, v)| v)
    }
    pub fn values_mut(&mut self) -> impl Iterator<Item = &mut V> + '_ {
        self.items.iter_mut().map(|(_, v)| v)
    }
    pub fn entry(&mut self, k: K) -> Entry<'_, K, V> {
        Entry { map: self, key: k }
    }
}
pub struct Entry<'a, K, V> {
    map: &'a mut HashMap<K, V>,
    key: K,
}
impl<'a, K: Eq, V> Entry<'a, K, V> {
    pub fn or_insert_with<F: FnOnce() -> V>(self, f: F) -> &'a mut V {
        let i = match self.map.pos(&self.key) {
            Some(i) => i,
            None => {
                self.map.items.push((self.key, f()));
                self.map.items.len() - 1
            }
        };
        &mut self.map.items[i].1
    }
    pub fn or_insert(self, v: V) -> &'a mut V {
        self.or_insert_with(|| v)
    }
    pub fn or_default(self) -> &'a mut V
    where
        V: Default,
    {
        self.or_insert_with(V::default)
    }
}
impl<K: Eq, V> FromIterator<(K, V)> for HashMap<K, V> {
    fn from_iter<I: IntoIterator<Item = (K, V)>>(it: I) -> Self {
        let mut m = Self::default();
        for (k, v) in it {
            m.insert(k, v);
        }
        m
    }
}
impl<K: Eq, V> Extend<(K, V)> for HashMap<K, V> {
    fn extend<I: IntoIterator<Item = (K, V)>>(&mut self, it: I) {
        for (k, v) in it {
            self.insert(k, v);
        }
    }
}
impl<K: Eq, V, const N: usize> From<[(K, V); N]> for HashMap<K, V> {
    fn from(a: [(K, V); N]) -> Self {
        a.into_iter().collect()
    }
}
impl<K, V> IntoIterator for HashMap<K, V> {
    type Item = (K, V);
    type IntoIter = std::vec::IntoIter<(K, V)>;
    fn into_iter(self) -> Self::IntoIter {
        self.items.into_iter()
    }
}
impl<'a, K, V> IntoIterator for &'a HashMap<K, V> {
    type Item = (&'a K, &'a V);
    type IntoIter = std::iter::Map<std::slice::Iter<'a, (K, V)>, fn(&'a (K, V)) -> (&'a K, &'a V)>;
    fn into_iter(self) -> Self::IntoIter {
        fn split<'b, K, V>(p: &'b (K, V)) -> (&'b K, &'b V) {
            (&p.0, &p.1)
        }
        self.items.iter().map(split as fn(&'a (K, V)) -> (&'a K, &'a V))
    }
}
impl<K: Eq, V: PartialEq> PartialEq for HashMap<K, V> {
    fn eq(&self, o: &Self) -> bool {
        self.len() == o.len() && self.items.iter().all(|(k, v)| o.get(k) == Some(v))
    }
}
impl<K: Eq, V: Eq> Eq for HashMap<K, V> {}

#[derive(Clone, Debug)]
pub struct HashSet<T> {
    items: Vec<T>,
}
impl<T> Default for HashSet<T> {
    fn default() -> Self {
        HashSet { items: Vec::new() }
    }
}
impl<T: Eq> HashSet<T> {
    pub fn new() -> Self {
        Self::default()
    }
    pub fn contains<Q: ?Sized + Eq>(&self, v: &Q) -> bool
    where
        T: Borrow<Q>,
    {
        self.items.iter().any(|x| x.borrow() == v)
    }
    pub fn insert(&mut self, v: T) -> bool {
        if self.items.iter().any(|x| *x == v) {
            false
        } else {
            self.items.push(v);
            true
        }
    }
    pub fn len(&self) -> usize {
        self.items.len()
    }
    pub fn is_empty(&self) -> bool {
        self.items.is_empty()
    }
    pub fn iter(&self) -> std::slice::Iter<'_, T> {
        self.items.iter()
    }
}
impl<T: Eq> FromIterator<T> for HashSet<T> {
    fn from_iter<I: IntoIterator<Item = T>>(it: I) -> Self {
        let mut s = Self::default();
        for v in it {
            s.insert(v);
        }
        s
    }
}
impl<T: Eq> Extend<T> for HashSet<T> {
    fn extend<I: IntoIterator<Item = T>>(&mut self, it: I) {
        for v in it {
            self.insert(v);
        }
    }
}
impl<T> IntoIterator for HashSet<T> {
    type Item = T;
    type IntoIter = std::vec::IntoIter<T>;
    fn into_iter(self) -> Self::IntoIter {
        self.items.into_iter()
    }
}
impl<'a, T> IntoIterator for &'a HashSet<T> {
    type Item = &'a T;
    type IntoIter = std::slice::Iter<'a, T>;
    fn into_iter(self) -> Self::IntoIter {
        self.items.iter()
    }
}
impl<T: Eq> PartialEq for HashSet<T> {
    fn eq(&self, o: &Self) -> bool {
        self.len() == o.len() && self.items.iter().all(|v| o.contains(v))
    }
}
impl<T: Eq> Eq for HashSet<T> {}
impl<K: Eq + Borrow<Q>, Q: ?Sized + Eq, V> std::ops::Index<&Q> for HashMap<K, V> {
    type Output = V;
    fn index(&self, k: &Q) -> &V {
        self.get(k).expect("no entry found for key")
    }
}
