// appended to src/builtin/optional.rs — C06 / C07: optional `or` / `and` short-circuit; errors propagate; tail flag forwarding
use crate::runtime::RuntimeLimits;

fn opt_value(some: bool, rt: &Rt) -> XExpr<P, P, P> {
    let inner = if some { Some(ManagedXValue::new(XValue::Int(LazyBigint::Short(21)), rt.clone()).unwrap()) } else { None };
    val(XValue::Native(Box::new(XOptional::<P, P, P> { value: inner })), rt)
}
macro_rules! optional_sc_harness {
    ($name:ident, $add:ident, $short_on_some:expr) => {
        native_harness_rec! {
        #[kani::unwind(4)]
        fn $name() {
            let mut root = RootCompilationScope::<P, P, P>::new();
            $add(&mut root).unwrap();
            let nc = last_native(&root);
            let rt: Rt = no_limits();
            let ns = crate::runtime_scope::verif_kani::bare_scope();
            let (ea, eb): (bool, bool) = (kani::any(), kani::any());
            let some: bool = kani::any();
            let tca: bool = kani::any();
            let args = vec![
                if ea { err_i(1, &rt) } else { opt_value(some, &rt) },
                if eb { err_i(2, &rt) } else { int(LazyBigint::Short(12), &rt) },
            ];
            let r = nc(&args, &ns, tca, rt.clone());
            let (n, tags, tails) = eval_log();
            let got = outcome_tag(&r);
            if ea {
                assert!(got == Some(err_tag(1)) && n == 1, "an error first operand propagates; the second is not evaluated");
            } else if some == $short_on_some {
                assert!(n == 1 && got == Some(5000), "short circuit: the first operand is the result and the second is not evaluated");
            } else {
                assert!(n == 2 && tails[1] == tca && !tails[0], "the second operand is evaluated with the caller's tail flag");
                assert!(got == Some(if eb { err_tag(2) } else { 12 }), "the result is the second operand's outcome");
            }
            kani::cover!(!ea && some == $short_on_some, "short circuit");
            kani::cover!(!ea && some != $short_on_some && tca, "second operand in tail position");
            std::mem::forget(r);
            std::mem::forget(args);
            std::mem::forget(ns);
            std::mem::forget(root);
            std::mem::forget(rt);
        }
        }
    };
}
optional_sc_harness!(c06_optional_or_native, add_optional_or, true);
optional_sc_harness!(c06_optional_and_native, add_optional_and, false);
