// appended to src/builtin/datetime.rs — C11 (clock)
use crate::permissions::PermissionSet;
use crate::runtime::RuntimeLimits;

native_harness! {
#[kani::unwind(4)]
fn c11_now() {
    let mut root = RootCompilationScope::<RecW, RecR, RecT>::new();
    add_datetime_now(&mut root).unwrap();
    let nc = last_native(&root);
    let deny: bool = kani::any();
    let mut set = PermissionSet::default();
    if deny {
        set.forbid(&builtin_permissions::NOW);
    }
    let rt: RtRec = runtime_rec(RuntimeLimits { permissions: set, ..Default::default() });
    let ns = crate::runtime_scope::verif_kani::bare_scope();
    let args: Vec<crate::xexpr::XExpr<RecW, RecR, RecT>> = vec![];
    let r = nc(&args, &ns, false, rt.clone());
    let (w, c, g) = effects();
    if deny {
        assert!(is_permission_error(&r, builtin_permissions::NOW.id), "denied: PermissionError naming now");
        assert!(w == 0 && c == 0 && g == 0, "denied: writer, clock and rng untouched");
    } else {
        assert!(r.is_ok(), "granted: no violation");
        assert!(w == 0 && c == 1 && g == 0, "granted: the clock is read exactly once");
    }
    kani::cover!(deny, "denied");
    kani::cover!(!deny, "granted");
    std::mem::forget(r);
    std::mem::forget(args);
    std::mem::forget(ns);
    std::mem::forget(root);
    std::mem::forget(rt);
}
}
