// appended to src/builtin/int.rs — C14 natives (probe p7 re-run)
use crate::runtime::RuntimeLimits;
use crate::runtime_scope::{RuntimeScope, RuntimeScopeTemplate};
use crate::xexpr::TailedEvalResult;

/// contract of num-bigint's `to_f64`: Some(any float, including the infinities for out-of-range values) or None
fn any_to_f64(_this: &LazyBigint) -> Option<f64> {
    if kani::any() {
        Some(kani::any())
    } else {
        None
    }
}
native_harness! {
#[kani::stub(<crate::util::lazy_bigint::LazyBigint as num_traits::ToPrimitive>::to_f64, any_to_f64)]
#[kani::unwind(4)]
fn c13_int_to_float() {
    let mut root = RootCompilationScope::<P, P, P>::new();
    add_int_to_float(&mut root).unwrap();
    let nc = last_native(&root);
    let rt: Rt = no_limits();
    let ns = crate::runtime_scope::verif_kani::bare_scope();
    let args = vec![int(LazyBigint::Short(kani::any()), &rt)]; // the stub ignores the value
    let r = nc(&args, &ns, false, rt.clone());
    match &r {
        Ok(TailedEvalResult::Value(Ok(v))) => {
            match &v.value {
                XValue::Float(f) => assert!(f.is_finite(), "int.to_float yields a finite float"),
                _ => assert!(false, "to_float returns a float"),
            }
            kani::cover!(true, "finite conversion");
        }
        Ok(TailedEvalResult::Value(Err(_))) => {
            kani::cover!(true, "out-of-range conversion is an error value");
        }
        _ => assert!(false, "no violation"),
    }
    std::mem::forget(r);
    std::mem::forget(args);
    std::mem::forget(ns);
    std::mem::forget(root);
    std::mem::forget(rt);
}
}
