// appended to src/builtin/int.rs — C14 natives (probe p7 re-run)
use crate::runtime::RuntimeLimits;
use crate::runtime_scope::{RuntimeScope, RuntimeScopeTemplate};
use crate::xexpr::TailedEvalResult;

#[kani::proof]
#[kani::stub(std::collections::hash_map::RandomState::new, stub_rs)]
#[kani::stub(crate::root_compilation_scope::RootCompilationScope::identifier, stub_identifier)]
#[kani::unwind(4)]
fn c14_p7_native_int_div() {
    let mut root = RootCompilationScope::<(), (), ()>::new();
    add_int_div(&mut root).unwrap();
    let nc = last_native(&root);
    let rt: Rt = no_limits();
    let ns = crate::runtime_scope::verif_kani::bare_scope();
    let a = any_canonical();
    let b = any_canonical();
    let bz = b.is_zero();
    let args = vec![int(a, &rt), int(b, &rt)];
    let r = nc(&args, &ns, false, rt.clone());
    match r {
        Ok(TailedEvalResult::Value(Ok(v))) => {
            match &v.value {
                XValue::Float(f) => assert!(f.is_finite()),
                _ => assert!(false),
            }
            std::mem::forget(v);
        }
        Ok(TailedEvalResult::Value(Err(e))) => {
            assert!(bz);
            std::mem::forget(e);
        }
        _ => assert!(false),
    }
    std::mem::forget(args);
    std::mem::forget(ns);
    std::mem::forget(root);
    std::mem::forget(rt);
}
