// appended to src/builtin/int.rs — C14 natives (probe p7 re-run)
use crate::runtime::RuntimeLimits;
use crate::runtime_scope::{RuntimeScope, RuntimeScopeTemplate};
use crate::xexpr::TailedEvalResult;

/// contract of num-bigint's `to_f64`: Some(any float, including the infinities for out-of-range values) or None
fn any_to_f64(_this: &LazyBigint) -> Option<f64> {
    if kani::any() {
        Some(kani::any())
    } else {
        None
    }
}
native_harness! {
#[kani::stub(<crate::util::lazy_bigint::LazyBigint as num_traits::ToPrimitive>::to_f64, any_to_f64)]
#[kani::unwind(4)]
fn c13_int_to_float() {
    let mut root = RootCompilationScope::<P, P, P>::new();
    add_int_to_float(&mut root).unwrap();
    let nc = last_native(&root);
    let rt: Rt = no_limits();
    let ns = crate::runtime_scope::verif_kani::bare_scope();
    let args = vec![int(LazyBigint::Short(kani::any()), &rt)]; // the stub ignores the value
    let r = nc(&args, &ns, false, rt.clone());
    match &r {
        Ok(TailedEvalResult::Value(Ok(v))) => {
            match &v.value {
                XValue::Float(f) => assert!(f.is_finite(), "int.to_float yields a finite float"),
                _ => assert!(false, "to_float returns a float"),
            }
            kani::cover!(true, "finite conversion");
        }
        Ok(TailedEvalResult::Value(Err(_))) => {
            kani::cover!(true, "out-of-range conversion is an error value");
        }
        _ => assert!(false, "no violation"),
    }
    std::mem::forget(r);
    std::mem::forget(args);
    std::mem::forget(ns);
    std::mem::forget(root);
    std::mem::forget(rt);
}
}

/// `digits(n, b)`: for 0 <= n < 4096 and every base -3..=11 the native terminates within the unwinding bound
/// (at most 12 iterations: the bounded-work obligation is the unwinding assertion), yields an error value for bases
/// below 2 and otherwise the little-endian digits of n
native_harness! {
#[kani::unwind(15)]
fn c10_digits_terminates_x() {
    let mut root = RootCompilationScope::<P, P, P>::new();
    add_int_digits(&mut root).unwrap();
    let nc = last_native(&root);
    let rt: Rt = no_limits();
    let ns = crate::runtime_scope::verif_kani::bare_scope();
    let n: i64 = kani::any();
    let b: i64 = kani::any();
    kani::assume(n >= 0 && n < 4096 && b >= -3 && b <= 11);
    let args = vec![int(LazyBigint::Short(n), &rt), int(LazyBigint::Short(b), &rt)];
    let r = nc(&args, &ns, false, rt.clone());
    match &r {
        Ok(TailedEvalResult::Value(Ok(v))) => {
            assert!(b >= 2, "digits are produced only for bases of at least 2");
            match &v.value {
                XValue::Native(nv) => match nv.as_ref()._as_any().downcast_ref::<XSequence<P, P, P>>() {
                    Some(XSequence::Array(items)) => {
                        let mut acc: i64 = 0;
                        let mut pw: i64 = 1;
                        let mut i = 0;
                        while i < 13 {
                            if i < items.len() {
                                if let XValue::Int(LazyBigint::Short(d)) = &items[i].value {
                                    assert!(*d >= 0 && *d < b, "each digit is in 0..b");
                                    acc += d * pw;
                                    pw *= b;
                                }
                            }
                            i += 1;
                        }
                        assert!(acc == n && items.len() <= 12, "the digits denote n");
                    }
                    Some(XSequence::Empty) => assert!(n == 0, "only zero has no digits"),
                    _ => assert!(false, "digits yields an array"),
                },
                _ => assert!(false, "digits yields a sequence"),
            }
        }
        Ok(TailedEvalResult::Value(Err(_))) => assert!(b < 2, "an error value only for bases below 2"),
        _ => assert!(false, "no violation without limits"),
    }
    kani::cover!(b == 2 && n == 4095, "twelve binary digits");
    kani::cover!(b == 1, "base 1 refused");
    kani::cover!(b == 10 && n > 999, "four decimal digits");
    std::mem::forget(r);
    std::mem::forget(args);
    std::mem::forget(ns);
    std::mem::forget(root);
    std::mem::forget(rt);
}
}
