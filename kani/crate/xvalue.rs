// appended to src/xvalue.rs — C13: the checked float constructor
use crate::runtime::RuntimeLimits;

/// stands in for ManagedXValue::new in harnesses that run without a size limit: the real function accounts 0 bytes then,
/// but it reads the limit through the Rc'd runtime, so symex also explores the refusal path, on which the XValue is
/// dropped (recursive drop glue of XExpr behind XFunction).  Never used by the C09 harnesses.
pub(crate) fn value_new_unlimited<W, R, T>(value: XValue<W, R, T>, runtime: RTCell<W, R, T>) -> RuntimeResult<Rc<ManagedXValue<W, R, T>>> {
    Ok(Rc::new(ManagedXValue { runtime, size: 0.into(), value }))
}

/// XValue::float: a Float value is produced only for finite inputs; NaN and the infinities become error values
#[kani::proof]
#[kani::stub(std::collections::hash_map::RandomState::new, stub_rs)]
#[kani::stub(std::rc::Rc::drop_slow, leak_rc)]
#[kani::stub(std::sync::Arc::drop_slow, leak_arc)]
#[kani::unwind(4)]
fn c13_checked_constructor() {
    let rt: Rt = no_limits();
    let x: f64 = kani::any();
    // results are inspected by reference and leaked: dropping an XValue drags the recursive drop glue of XExpr in
    let r = XValue::<P, P, P>::float(x, &rt);
    match &r {
        Ok(Ok(XValue::Float(v))) => {
            assert!(v.is_finite(), "a Float value is finite");
            assert!(v.to_bits() == x.to_bits(), "the value is the input");
        }
        Ok(Ok(_)) => assert!(false, "constructor builds a Float"),
        Ok(Err(_)) => assert!(!x.is_finite(), "only NaN and infinities are refused"),
        Err(_) => assert!(false, "no violation without limits"),
    }
    std::mem::forget(r);
    kani::cover!(x.is_nan(), "NaN refused");
    kani::cover!(x == f64::INFINITY, "infinity refused");
    kani::cover!(x == f64::MAX, "largest finite accepted");
    kani::cover!(x == -0.0 && x.is_sign_negative(), "negative zero accepted");
    std::mem::forget(rt);
}
