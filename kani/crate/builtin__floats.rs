// appended to src/builtin/floats.rs — C13: float natives yield a finite float or an error value
use crate::runtime::RuntimeLimits;
use crate::xexpr::TailedEvalResult;
use crate::root_runtime_scope::RuntimeResult;

fn finite_or_error(r: RuntimeResult<TailedEvalResult<P, P, P>>) -> Option<f64> {
    // inspected by reference and leaked: dropping results drags the recursive drop glue of XValue/XExpr in
    let out = match &r {
        Ok(TailedEvalResult::Value(Ok(v))) => match &v.value {
            XValue::Float(f) => {
                assert!(f.is_finite(), "a float result is finite");
                Some(*f)
            }
            _ => {
                assert!(false, "float native returns a float");
                None
            }
        },
        Ok(TailedEvalResult::Value(Err(_))) => None,
        _ => {
            assert!(false, "no violation and no tail call");
            None
        }
    };
    std::mem::forget(r);
    out
}
macro_rules! float_binop_harness {
    ($name:ident, $add:ident, $bsel:expr, $isdiv:expr, |$a:ident, $b:ident| $exact:expr) => {
        native_harness! {
        #[kani::unwind(4)]
        fn $name() {
            let mut root = RootCompilationScope::<P, P, P>::new();
            $add(&mut root).unwrap();
            let nc = last_native(&root);
            let rt: Rt = no_limits();
            let ns = crate::runtime_scope::verif_kani::bare_scope();
            let $a: f64 = kani::any();
            let $b: f64 = $bsel;
            kani::assume($a.is_finite() && $b.is_finite()); // float values of the language are finite (the property itself)
            let args = vec![val(XValue::Float($a), &rt), val(XValue::Float($b), &rt)];
            let r = nc(&args, &ns, false, rt.clone());
            // (the oracle must not itself divide 0.0 by 0.0: Kani's NaN-on-division check would flag the harness)
            let exact: f64 = if $isdiv && $b == 0.0 { f64::NAN } else { $exact };
            match finite_or_error(r) {
                Some(f) => assert!(f.to_bits() == exact.to_bits() || (f == 0.0 && exact == 0.0), "result is the IEEE result"),
                None => assert!(!exact.is_finite() || $b == 0.0, "an error value only when the IEEE result is not finite (or the divisor is zero)"),
            }
            kani::cover!(!exact.is_finite(), "overflow to infinity / NaN turned into an error value");
            kani::cover!(exact.is_finite() && exact != 0.0, "ordinary result");
            std::mem::forget(args);
            std::mem::forget(ns);
            std::mem::forget(root);
            std::mem::forget(rt);
        }
        }
    };
}
/// quick tier: the second operand is one of a few constants chosen by a symbolic selector (a fully symbolic IEEE
/// operation takes CBMC several minutes); thorough tier: both operands symbolic
fn const_operand() -> f64 {
    match kani::any::<u8>() % 4 {
        0 => f64::MAX,
        1 => -f64::MAX,
        2 => 1.0,
        _ => 0.0,
    }
}
float_binop_harness!(c13_float_add, add_float_add, const_operand(), false, |a, b| a + b);
float_binop_harness!(c13_float_sub, add_float_sub, const_operand(), false, |a, b| a - b);
float_binop_harness!(c13_float_mul, add_float_mul, const_operand(), false, |a, b| a * b);
float_binop_harness!(c13_float_div, add_float_div, const_operand(), true, |a, b| a / b);
float_binop_harness!(c13_float_add_full, add_float_add, kani::any(), false, |a, b| a + b);
float_binop_harness!(c13_float_sub_full, add_float_sub, kani::any(), false, |a, b| a - b);
float_binop_harness!(c13_float_mul_full_t, add_float_mul, kani::any(), false, |a, b| a * b);
// both operands symbolic for division: two 64-bit IEEE dividers (the native's and the oracle's) do not finish in 1800 s:
// kept for the record; the thorough tier widens the divisor table instead
float_binop_harness!(c13_float_div_full_x, add_float_div, kani::any(), true, |a, b| a / b);
fn wide_divisor() -> f64 {
    match kani::any::<u8>() % 8 {
        0 => 5e-324,                  // smallest subnormal: quotient overflows for most dividends
        1 => 2.2250738585072014e-308, // smallest normal
        2 => -1e-300,
        3 => 0.1,
        4 => 3.0,
        5 => -0.75,
        6 => 1e300,
        _ => -f64::MAX,
    }
}
// (a divisor table with subnormal / non-dyadic constants did not finish in 1800 s either: kept for the record)
float_binop_harness!(c13_float_div_wide_x, add_float_div, wide_divisor(), true, |a, b| a / b);

native_harness! {
#[kani::unwind(4)]
fn c13_float_neg() {
    let mut root = RootCompilationScope::<P, P, P>::new();
    add_float_neg(&mut root).unwrap();
    let nc = last_native(&root);
    let rt: Rt = no_limits();
    let ns = crate::runtime_scope::verif_kani::bare_scope();
    let a: f64 = kani::any();
    kani::assume(a.is_finite());
    let args = vec![val(XValue::Float(a), &rt)];
    let r = nc(&args, &ns, false, rt.clone());
    match finite_or_error(r) {
        Some(f) => assert!(f == -a, "negation"),
        None => assert!(false, "negation of a finite float is finite"),
    }
    std::mem::forget(args);
    std::mem::forget(ns);
    std::mem::forget(root);
    std::mem::forget(rt);
}
}


/// float `mod` (floored, computed as ((a % b) + b) % b): a finite float or an error value for every finite a and
/// divisors from a constant table that includes the top of the float range (where the intermediate sum overflows)
fn mod_divisor() -> f64 {
    match kani::any::<u8>() % 5 {
        0 => 1.5e308,
        1 => -1.5e308,
        2 => f64::MAX,
        3 => 2.0,
        _ => 0.0,
    }
}
native_harness! {
#[kani::unwind(4)]
fn c13_float_mod() {
    let mut root = RootCompilationScope::<P, P, P>::new();
    add_float_mod(&mut root).unwrap();
    let nc = last_native(&root);
    let rt: Rt = no_limits();
    let ns = crate::runtime_scope::verif_kani::bare_scope();
    let a: f64 = kani::any();
    let b: f64 = mod_divisor();
    kani::assume(a.is_finite());
    let args = vec![val(XValue::Float(a), &rt), val(XValue::Float(b), &rt)];
    let r = nc(&args, &ns, false, rt.clone());
    // only finiteness is asserted (inside finite_or_error): CBMC's model of the float remainder is not exact enough to
    // state its value (a first version asserting sign and magnitude produced counterexamples that do not reproduce natively)
    match finite_or_error(r) {
        Some(_) => assert!(b != 0.0, "a zero divisor is an error value"),
        None => {}
    }
    kani::cover!(b == 1.5e308 && a > 1.0e308, "operands at the top of the float range");
    kani::cover!(b == 2.0 && a < 0.0, "negative dividend");
    std::mem::forget(args);
    std::mem::forget(ns);
    std::mem::forget(root);
    std::mem::forget(rt);
}
}
