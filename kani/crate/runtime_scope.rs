// appended to src/runtime_scope.rs as `mod verif_kani` — C08 (depth), C01 (parameter/default indexing), C03 (capture resolution)
use crate::runtime::RuntimeLimits;

/// a scope with no cells and no parent, built directly (not through from_specs/from_template, whose declaration loop
/// drags every factory closure of the crate into symex); natives are called in it with pre-evaluated arguments
pub(crate) fn bare_template<W: 'static, R: 'static, T: 'static>() -> Rc<RuntimeScopeTemplate<W, R, T>> {
    Rc::new(RuntimeScopeTemplate {
        id: 1,
        cells: vec![],
        declarations: vec![],
        scope_parent_id: None,
        param_count: 0,
        defaults: vec![],
        output: None,
    })
}
pub(crate) fn bare_scope<W: 'static, R: 'static, T: 'static>() -> RuntimeScope<'static, W, R, T> {
    let template = Rc::new(RuntimeScopeTemplate {
        id: 1,
        cells: vec![],
        declarations: vec![],
        scope_parent_id: None,
        param_count: 0,
        defaults: vec![],
        output: None,
    });
    RuntimeScope { cells: vec![], height: StackDepth(0), scope_parent: None, template }
}

fn tag_of(c: &EvaluationCell<P, P, P>) -> Option<i64> {
    match c {
        EvaluationCell::Value(Ok(v)) => match &v.value {
            XValue::Int(LazyBigint::Short(s)) => Some(*s),
            _ => None,
        },
        _ => None,
    }
}
fn tagged(t: i64, rt: &Rt) -> EvaluatedValue<P, P, P> {
    Ok(ManagedXValue::new(XValue::Int(LazyBigint::Short(t)), rt.clone()).unwrap())
}
fn take3<X>(n: usize, a: X, b: X, c: X) -> Vec<X> {
    match n {
        0 => vec![],
        1 => vec![a],
        2 => vec![a, b],
        _ => vec![a, b, c],
    }
}

// (C08 depth limit: a K-crate harness through from_template with a *feasible* error return does not finish --
// the early `return Err(..)` drops the half-built RuntimeScope and CBMC explores the recursive drop glue of
// XValue/XExpr/XType behind it (two probes, 300 s each, symex not finished).  Decided as a source slice instead: see
// /verif/kani/slices.)
// ------------------------------------------------------------------------------------------------ C01
/// parameter binding: for every argument count k in the static window [p-d, p], cell i holds argument i or
/// default i-(p-d); no index is out of bounds
#[kani::proof]
#[kani::stub(std::collections::hash_map::RandomState::new, stub_rs)]
#[kani::stub(crate::xexpr::XStaticFunction::to_function, trip_to_function)]
#[kani::stub(std::rc::Rc::drop_slow, leak_rc)]
#[kani::stub(std::sync::Arc::drop_slow, leak_arc)]
#[kani::stub(crate::runtime_scope::RuntimeScope::eval, mini_eval)]
#[kani::unwind(5)]
fn c01_param_binding_x() {
    let rt: Rt = no_limits();
    let parent = empty_scope(&rt); // template id 1
    let p: usize = kani::any();
    let d: usize = kani::any();
    let k: usize = kani::any();
    kani::assume(p <= 3 && d <= p && k <= p && k + d >= p);
    let specs = take3(p, CellSpec::Variable, CellSpec::Variable, CellSpec::Variable);
    let decls = take3(
        p,
        Declaration::Parameter { cell_idx: 0, argument_idx: 0 },
        Declaration::Parameter { cell_idx: 1, argument_idx: 1 },
        Declaration::Parameter { cell_idx: 2, argument_idx: 2 },
    );
    let defaults: Vec<XExpr<P, P, P>> = take3(d, XExpr::Dummy(tagged(100, &rt)), XExpr::Dummy(tagged(101, &rt)), XExpr::Dummy(tagged(102, &rt)));
    let tpl = RuntimeScopeTemplate::from_specs(2, p, &specs, Some(&parent), Some(1), decls, rt.clone(), defaults, None).unwrap();
    let args = take3(k, tagged(10, &rt), tagged(11, &rt), tagged(12, &rt));
    let scope = RuntimeScope::from_template(tpl, Some(&parent), rt.clone(), args).unwrap();
    let mut i = 0;
    while i < p {
        let got = tag_of(scope.get_cell_value(i));
        let want = if i < k { 10 + i as i64 } else { 100 + (i - (p - d)) as i64 };
        assert!(got == Some(want), "cell i = argument i, or default i-(p-d)");
        i += 1;
    }
    kani::cover!(p == 3 && d == 2 && k == 1, "two defaults used");
    kani::cover!(p == 3 && d == 3 && k == 0, "all defaults");
    kani::cover!(p == 3 && k == 3 && d == 1, "default not used");
    std::mem::forget(scope);
    std::mem::forget(parent);
    std::mem::forget(rt);
}

// ------------------------------------------------------------------------------------------------ C03
#[derive(Clone, Copy)]
enum MCell {
    Val(i64),
    Pend(usize, usize),
}
fn sym_cell(tag: i64, max_depth: usize, rt: &Rt) -> (MCell, TemplatedEvaluationCell<P, P, P>) {
    if kani::any() {
        (MCell::Val(tag), TemplatedEvaluationCell::Owned(EvaluationCell::Value(tagged(tag, rt))))
    } else {
        let depth: usize = kani::any();
        let cell: usize = kani::any();
        kani::assume(depth >= 1 && depth <= max_depth && cell < 2);
        (MCell::Pend(depth, cell), TemplatedEvaluationCell::Owned(EvaluationCell::PendingCapture { depth: ScopeDepth(depth), cell }))
    }
}
/// runtime capture resolution: evaluating a cell follows pending captures relative to the scope that holds
/// the pending cell, and returns exactly the value a reference walker over a plain model finds
#[kani::proof]
#[kani::stub(std::collections::hash_map::RandomState::new, stub_rs)]
#[kani::stub(crate::xexpr::XStaticFunction::to_function, trip_to_function)]
#[kani::stub(std::rc::Rc::drop_slow, leak_rc)]
#[kani::stub(crate::xvalue::ManagedXValue::new, crate::xvalue::verif_kani::value_new_unlimited)]
#[kani::stub(std::sync::Arc::drop_slow, leak_arc)]
#[kani::unwind(4)]
fn c03_pending_capture_resolution_x() {
    let rt: Rt = no_limits();
    let tpl: Rc<RuntimeScopeTemplate<P, P, P>> = bare_template();
    // level 0: two plain values
    let s0 = RuntimeScope {
        cells: vec![
            TemplatedEvaluationCell::Owned(EvaluationCell::Value(tagged(100, &rt))),
            TemplatedEvaluationCell::Owned(EvaluationCell::Value(tagged(101, &rt))),
        ],
        height: StackDepth(0),
        scope_parent: None,
        template: tpl.clone(),
    };
    let (m10, c10) = sym_cell(110, 1, &rt);
    let (m11, c11) = sym_cell(111, 1, &rt);
    let s1 = RuntimeScope { cells: vec![c10, c11], height: StackDepth(1), scope_parent: Some(&s0), template: tpl.clone() };
    let (m20, c20) = sym_cell(120, 2, &rt);
    let (m21, c21) = sym_cell(121, 2, &rt);
    let s2 = RuntimeScope { cells: vec![c20, c21], height: StackDepth(2), scope_parent: Some(&s1), template: tpl.clone() };
    // reference walker on the model
    let model: [[MCell; 2]; 3] = [[MCell::Val(100), MCell::Val(101)], [m10, m11], [m20, m21]];
    let which: usize = kani::any();
    kani::assume(which < 2);
    let mut level = 2usize;
    let mut cur = model[2][which];
    let mut hops = 0;
    let expect = loop {
        match cur {
            MCell::Val(t) => break t,
            MCell::Pend(d, c) => {
                level -= d;
                cur = model[level][c];
                hops += 1;
            }
        }
    };
    let e = XExpr::Value(which);
    let r = s2.eval(&e, rt.clone(), false);
    match r {
        Ok(TailedEvalResult::Value(Ok(v))) => {
            let got = match &v.value {
                XValue::Int(LazyBigint::Short(s)) => Some(*s),
                _ => None,
            };
            assert!(got == Some(expect), "captured cell resolves to the value the scoping rule prescribes");
            std::mem::forget(v);
        }
        _ => assert!(false, "resolution yields a value"),
    }
    kani::cover!(hops == 2, "two-hop pending chain");
    kani::cover!(hops == 1 && level == 0, "direct capture of a grandparent cell");
    kani::cover!(hops == 0, "plain value");
    std::mem::forget(e);
    std::mem::forget(s2);
    std::mem::forget(s1);
    std::mem::forget(s0);
    std::mem::forget(tpl);
    std::mem::forget(rt);
}
/// capture cell creation: a Capture{depth, idx} spec copies the value it names, or becomes a pending capture of it
#[kani::proof]
#[kani::stub(std::collections::hash_map::RandomState::new, stub_rs)]
#[kani::stub(crate::xexpr::XStaticFunction::to_function, trip_to_function)]
#[kani::stub(std::rc::Rc::drop_slow, leak_rc)]
#[kani::stub(crate::xvalue::ManagedXValue::new, crate::xvalue::verif_kani::value_new_unlimited)]
#[kani::stub(std::sync::Arc::drop_slow, leak_arc)]
#[kani::unwind(4)]
fn c03_capture_from_spec_x() {
    let rt: Rt = no_limits();
    let tpl: Rc<RuntimeScopeTemplate<P, P, P>> = bare_template();
    let g_init: bool = kani::any();
    let s0 = RuntimeScope {
        cells: vec![
            TemplatedEvaluationCell::Owned(EvaluationCell::Value(tagged(100, &rt))),
            TemplatedEvaluationCell::Owned(if g_init { EvaluationCell::Value(tagged(101, &rt)) } else { EvaluationCell::Uninitialized }),
        ],
        height: StackDepth(0),
        scope_parent: None,
        template: tpl.clone(),
    };
    let p_init: bool = kani::any();
    let s1 = RuntimeScope {
        cells: vec![
            TemplatedEvaluationCell::Owned(EvaluationCell::Value(tagged(110, &rt))),
            TemplatedEvaluationCell::Owned(if p_init { EvaluationCell::Value(tagged(111, &rt)) } else { EvaluationCell::Uninitialized }),
        ],
        height: StackDepth(1),
        scope_parent: Some(&s0),
        template: tpl.clone(),
    };
    let depth: usize = kani::any();
    let idx: usize = kani::any();
    kani::assume(depth >= 1 && depth <= 2 && idx < 2);
    let spec = CellSpec::Capture { ancestor_depth: ScopeDepth(depth), cell_idx: idx };
    // the new scope's parent is s1: depth 1 names s1, depth 2 names s0
    let cell = EvaluationCell::from_spec(&spec, Some(&s1)).unwrap();
    let target_tag = if depth == 1 { 110 + idx as i64 } else { 100 + idx as i64 };
    let target_init = idx == 0 || if depth == 1 { p_init } else { g_init };
    match &cell {
        EvaluationCell::Value(_) => {
            assert!(target_init, "a value is copied only from an initialised cell");
            assert!(tag_of(&cell) == Some(target_tag), "the copied value is the named cell's");
        }
        EvaluationCell::PendingCapture { depth: d, cell: c } => {
            assert!(!target_init, "pending only when the named cell is not yet initialised");
            assert!(d.0 == depth && *c == idx, "pending capture names the same cell");
        }
        _ => assert!(false, "no other kind of cell for plain targets"),
    }
    kani::cover!(depth == 2 && !target_init, "pending capture of a grandparent cell");
    kani::cover!(depth == 1 && target_init && idx == 1, "copied parent value");
    std::mem::forget(cell);
    std::mem::forget(s1);
    std::mem::forget(s0);
    std::mem::forget(tpl);
    std::mem::forget(rt);
}
