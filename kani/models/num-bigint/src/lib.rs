//! Bounded exact model of num-bigint for solver runs: a BigInt is an i128, every
//! operation is checked and a result outside i128 is cut off (outside the stated bound).
use num_integer::Integer;
use num_traits::{FromPrimitive, Num, One, Pow, Signed, ToPrimitive, Zero};
use std::convert::TryFrom;
use std::fmt;
use std::ops::*;

fn cut<T>(x: Option<T>) -> T {
    match x {
        Some(v) => v,
        None => {
            #[cfg(kani)]
            kani::assume(false);
            panic!("model bound exceeded")
        }
    }
}

/// Truncated division with remainder.  Under Kani the quotient and remainder are *specified*, not computed:
/// fresh q, r constrained by the division lemma  a = q*b + r, |r| < |b|, sign(r) = sign(a)  (exactly one solution
/// for b != 0), which replaces a 128-bit divider circuit by a multiplication.  Natively it is ordinary i128 division.
#[cfg(kani)]
pub fn tdivrem(a: i128, b: i128) -> (i128, i128) {
    if b == 0 {
        panic!("attempt to divide by zero");
    }
    let q: i128 = kani::any();
    let r: i128 = kani::any();
    kani::assume(r.unsigned_abs() < b.unsigned_abs());
    kani::assume(r == 0 || (r < 0) == (a < 0));
    kani::assume(q.unsigned_abs() <= a.unsigned_abs());
    match q.checked_mul(b).and_then(|p| p.checked_add(r)) {
        Some(v) => kani::assume(v == a),
        None => kani::assume(false),
    }
    (q, r)
}
#[cfg(not(kani))]
pub fn tdivrem(a: i128, b: i128) -> (i128, i128) {
    (cut(a.checked_div(b)), cut(a.checked_rem(b)))
}
fn fdivrem(a: i128, b: i128) -> (i128, i128) {
    let (q, r) = tdivrem(a, b);
    if r != 0 && ((r < 0) != (b < 0)) { (q - 1, r + b) } else { (q, r) }
}

#[derive(Clone, Copy, PartialEq, Eq, PartialOrd, Ord, Hash, Debug)]
pub struct BigInt(pub i128);
#[derive(Clone, Copy, PartialEq, Eq, PartialOrd, Ord, Hash, Debug)]
pub struct BigUint(pub u128);
#[derive(Debug, Clone, PartialEq, Eq)]
pub struct ParseBigIntError;
#[derive(Debug, Clone, PartialEq, Eq)]
pub struct TryFromBigIntError<T>(pub T);

impl fmt::Display for BigInt {
    fn fmt(&self, f: &mut fmt::Formatter<'_>) -> fmt::Result {
        write!(f, "{}", self.0)
    }
}
impl fmt::Display for ParseBigIntError {
    fn fmt(&self, f: &mut fmt::Formatter<'_>) -> fmt::Result {
        write!(f, "parse error")
    }
}

macro_rules! from_prim {
    ($($t:ty),*) => {$(
        impl From<$t> for BigInt { fn from(v: $t) -> Self { BigInt(v as i128) } }
        impl TryFrom<BigInt> for $t {
            type Error = TryFromBigIntError<BigInt>;
            fn try_from(v: BigInt) -> Result<Self, Self::Error> { <$t>::try_from(v.0).map_err(|_| TryFromBigIntError(v)) }
        }
        impl TryFrom<&BigInt> for $t {
            type Error = TryFromBigIntError<()>;
            fn try_from(v: &BigInt) -> Result<Self, Self::Error> { <$t>::try_from(v.0).map_err(|_| TryFromBigIntError(())) }
        }
    )*};
}
from_prim!(i8, i16, i32, i64, isize, u8, u16, u32, u64, usize);
impl From<i128> for BigInt {
    fn from(v: i128) -> Self {
        BigInt(v)
    }
}
impl TryFrom<BigInt> for i128 {
    type Error = TryFromBigIntError<BigInt>;
    fn try_from(v: BigInt) -> Result<Self, Self::Error> {
        Ok(v.0)
    }
}
impl TryFrom<&BigInt> for i128 {
    type Error = TryFromBigIntError<()>;
    fn try_from(v: &BigInt) -> Result<Self, Self::Error> {
        Ok(v.0)
    }
}
impl TryFrom<i64> for BigUint {
    type Error = TryFromBigIntError<()>;
    fn try_from(v: i64) -> Result<Self, Self::Error> {
        u128::try_from(v).map(BigUint).map_err(|_| TryFromBigIntError(()))
    }
}
impl TryFrom<BigInt> for BigUint {
    type Error = TryFromBigIntError<BigInt>;
    fn try_from(v: BigInt) -> Result<Self, Self::Error> {
        u128::try_from(v.0).map(BigUint).map_err(|_| TryFromBigIntError(v))
    }
}

macro_rules! binop {
    ($tr:ident, $m:ident, $f:expr) => {
        impl $tr<BigInt> for BigInt { type Output = BigInt; fn $m(self, r: BigInt) -> BigInt { BigInt($f(self.0, r.0)) } }
        impl $tr<&BigInt> for BigInt { type Output = BigInt; fn $m(self, r: &BigInt) -> BigInt { BigInt($f(self.0, r.0)) } }
        impl $tr<BigInt> for &BigInt { type Output = BigInt; fn $m(self, r: BigInt) -> BigInt { BigInt($f(self.0, r.0)) } }
        impl $tr<&BigInt> for &BigInt { type Output = BigInt; fn $m(self, r: &BigInt) -> BigInt { BigInt($f(self.0, r.0)) } }
        impl $tr<i64> for BigInt { type Output = BigInt; fn $m(self, r: i64) -> BigInt { BigInt($f(self.0, r as i128)) } }
        impl $tr<&i64> for BigInt { type Output = BigInt; fn $m(self, r: &i64) -> BigInt { BigInt($f(self.0, *r as i128)) } }
        impl $tr<i64> for &BigInt { type Output = BigInt; fn $m(self, r: i64) -> BigInt { BigInt($f(self.0, r as i128)) } }
        impl $tr<&i64> for &BigInt { type Output = BigInt; fn $m(self, r: &i64) -> BigInt { BigInt($f(self.0, *r as i128)) } }
        impl $tr<BigInt> for i64 { type Output = BigInt; fn $m(self, r: BigInt) -> BigInt { BigInt($f(self as i128, r.0)) } }
        impl $tr<&BigInt> for i64 { type Output = BigInt; fn $m(self, r: &BigInt) -> BigInt { BigInt($f(self as i128, r.0)) } }
        impl $tr<&BigInt> for &i64 { type Output = BigInt; fn $m(self, r: &BigInt) -> BigInt { BigInt($f(*self as i128, r.0)) } }
        impl $tr<BigInt> for &i64 { type Output = BigInt; fn $m(self, r: BigInt) -> BigInt { BigInt($f(*self as i128, r.0)) } }
    };
}
binop!(Add, add, |a: i128, b: i128| cut(a.checked_add(b)));
binop!(Sub, sub, |a: i128, b: i128| cut(a.checked_sub(b)));
binop!(Mul, mul, |a: i128, b: i128| cut(a.checked_mul(b)));
binop!(Div, div, |a: i128, b: i128| tdivrem(a, b).0);
binop!(Rem, rem, |a: i128, b: i128| tdivrem(a, b).1);
binop!(BitAnd, bitand, |a: i128, b: i128| a & b);
binop!(BitOr, bitor, |a: i128, b: i128| a | b);
binop!(BitXor, bitxor, |a: i128, b: i128| a ^ b);

impl MulAssign<&BigInt> for BigInt {
    fn mul_assign(&mut self, r: &BigInt) {
        self.0 = cut(self.0.checked_mul(r.0))
    }
}
impl MulAssign<BigInt> for BigInt {
    fn mul_assign(&mut self, r: BigInt) {
        self.0 = cut(self.0.checked_mul(r.0))
    }
}
impl Neg for BigInt {
    type Output = BigInt;
    fn neg(self) -> BigInt {
        BigInt(cut(self.0.checked_neg()))
    }
}
impl Neg for &BigInt {
    type Output = BigInt;
    fn neg(self) -> BigInt {
        BigInt(cut(self.0.checked_neg()))
    }
}
impl Zero for BigInt {
    fn zero() -> Self {
        BigInt(0)
    }
    fn is_zero(&self) -> bool {
        self.0 == 0
    }
}
impl One for BigInt {
    fn one() -> Self {
        BigInt(1)
    }
}
impl Num for BigInt {
    type FromStrRadixErr = ParseBigIntError;
    fn from_str_radix(s: &str, radix: u32) -> Result<Self, ParseBigIntError> {
        i128::from_str_radix(s, radix).map(BigInt).map_err(|_| ParseBigIntError)
    }
}
impl Signed for BigInt {
    fn abs(&self) -> Self {
        BigInt(cut(self.0.checked_abs()))
    }
    fn abs_sub(&self, o: &Self) -> Self {
        if self.0 <= o.0 { BigInt(0) } else { BigInt(cut(self.0.checked_sub(o.0))) }
    }
    fn signum(&self) -> Self {
        BigInt(self.0.signum())
    }
    fn is_positive(&self) -> bool {
        self.0 > 0
    }
    fn is_negative(&self) -> bool {
        self.0 < 0
    }
}
impl ToPrimitive for BigInt {
    fn to_i64(&self) -> Option<i64> {
        i64::try_from(self.0).ok()
    }
    fn to_u64(&self) -> Option<u64> {
        u64::try_from(self.0).ok()
    }
    fn to_i128(&self) -> Option<i128> {
        Some(self.0)
    }
    fn to_f64(&self) -> Option<f64> {
        Some(self.0 as f64)
    }
}
impl FromPrimitive for BigInt {
    fn from_i64(n: i64) -> Option<Self> {
        Some(BigInt(n as i128))
    }
    fn from_u64(n: u64) -> Option<Self> {
        Some(BigInt(n as i128))
    }
    fn from_f64(n: f64) -> Option<Self> {
        if n.is_finite() && n.abs() < 1.0e38 { Some(BigInt(n as i128)) } else { None }
    }
}
impl Integer for BigInt {
    fn div_floor(&self, o: &Self) -> Self {
        BigInt(fdivrem(self.0, o.0).0)
    }
    fn mod_floor(&self, o: &Self) -> Self {
        BigInt(fdivrem(self.0, o.0).1)
    }
    fn gcd(&self, o: &Self) -> Self {
        BigInt(Integer::gcd(&self.0, &o.0))
    }
    fn lcm(&self, o: &Self) -> Self {
        BigInt(Integer::lcm(&self.0, &o.0))
    }
    fn divides(&self, o: &Self) -> bool {
        self.is_multiple_of(o)
    }
    fn is_multiple_of(&self, o: &Self) -> bool {
        if o.0 == 0 { self.0 == 0 } else { tdivrem(self.0, o.0).1 == 0 }
    }
    fn is_even(&self) -> bool {
        self.0 % 2 == 0
    }
    fn is_odd(&self) -> bool {
        self.0 % 2 != 0
    }
    fn div_rem(&self, o: &Self) -> (Self, Self) {
        let (q, r) = tdivrem(self.0, o.0);
        (BigInt(q), BigInt(r))
    }
}
impl Pow<BigUint> for BigInt {
    type Output = BigInt;
    fn pow(self, e: BigUint) -> BigInt {
        let e32 = cut(u32::try_from(e.0).ok());
        BigInt(cut(self.0.checked_pow(e32)))
    }
}
impl BigInt {
    pub fn iter_u64_digits(&self) -> std::vec::IntoIter<u64> {
        let m = self.0.unsigned_abs();
        let lo = m as u64;
        let hi = (m >> 64) as u64;
        if hi != 0 { vec![lo, hi].into_iter() } else if lo != 0 { vec![lo].into_iter() } else { vec![].into_iter() }
    }
    pub fn bits(&self) -> u64 {
        (128 - self.0.unsigned_abs().leading_zeros()) as u64
    }
    pub fn magnitude(&self) -> BigUint {
        BigUint(self.0.unsigned_abs())
    }
}
impl BigUint {
    pub fn to_str_radix(&self, _radix: u32) -> String {
        String::new() // text rendering is outside the model
    }
}

#[derive(Clone, Copy, PartialEq, Eq, Debug)]
pub enum Sign { Minus, NoSign, Plus }
impl BigInt {
    pub fn from_biguint(sign: Sign, v: BigUint) -> BigInt {
        let m = cut(i128::try_from(v.0).ok());
        match sign { Sign::Minus => BigInt(-m), Sign::NoSign => BigInt(0), Sign::Plus => BigInt(m) }
    }
}
impl Shl<usize> for BigInt {
    type Output = BigInt;
    fn shl(self, n: usize) -> BigInt {
        if n >= 126 { cut::<BigInt>(None) } else { BigInt(cut(self.0.checked_mul(1i128 << n))) }
    }
}
impl ShlAssign<usize> for BigUint {
    fn shl_assign(&mut self, n: usize) {
        if n >= 126 { cut::<()>(None) } else { self.0 = cut(self.0.checked_mul(1u128 << n)) }
    }
}
impl FromPrimitive for BigUint {
    fn from_i64(n: i64) -> Option<Self> { u128::try_from(n).ok().map(BigUint) }
    fn from_u64(n: u64) -> Option<Self> { Some(BigUint(n as u128)) }
}
