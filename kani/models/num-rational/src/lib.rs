//! model of num-rational's BigRational: only what lazy_bigint.rs uses
use num_bigint::BigInt;
use num_traits::{Inv, ToPrimitive};
#[derive(Clone, Copy, Debug)]
pub struct BigRational { n: BigInt, d: BigInt }
impl BigRational {
    pub fn new(n: BigInt, d: BigInt) -> Self { Self { n, d } }
}
impl From<BigInt> for BigRational { fn from(n: BigInt) -> Self { Self { n, d: BigInt(1) } } }
impl Inv for BigRational { type Output = BigRational; fn inv(self) -> BigRational { BigRational { n: self.d, d: self.n } } }
impl ToPrimitive for BigRational {
    fn to_i64(&self) -> Option<i64> { None }
    fn to_u64(&self) -> Option<u64> { None }
    fn to_f64(&self) -> Option<f64> { Some(self.n.0 as f64 / self.d.0 as f64) }
}
