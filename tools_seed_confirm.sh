#!/bin/bash
# usage: tools_seed_confirm.sh <worktree> : confirms a seeded change (tests pass with it; demo fails with it and passes without)
set -u
WT=$1
cd $WT || exit 2
mkdir -p examples && cp /verif/replay/xr_run.rs examples/xr_run.rs
run_demo() {
  python3 - "$WT/seed/demo.xr" <<'PY' | ./target/debug/examples/xr_run
import json,sys,os,tomllib
spec={"source": open(sys.argv[1]).read(), "bindings": [], "call": "main"}
t=sys.argv[1].replace("demo.xr","demo.toml")
if os.path.exists(t):
    cfg=tomllib.load(open(t,"rb"))
    spec["limits"]={k:v for k,v in cfg.get("limits",{}).items() if isinstance(v,int)}
    spec["forbid"]=cfg.get("limits",{}).get("forbidden_permissions",[])
    spec["allow"]=cfg.get("limits",{}).get("allowed_permissions",[])
    sys.stderr.write("expected_violation=%r\n"%cfg.get("expected_violation"))
print(json.dumps(spec))
PY
}
echo "== with change: test suite"
cargo test --workspace --no-fail-fast --offline 2>&1 | grep -E "^test result|FAILED|panicked" | head
cargo build --offline --example xr_run 2>&1 | grep -E "^error|Finished"
echo "== with change: demo"; run_demo | cut -c1-400
git stash -q -- src
cargo build --offline --example xr_run 2>&1 | grep -E "^error|Finished"
echo "== without change: demo"; run_demo | cut -c1-400
git stash pop -q
rm -rf examples/xr_run.rs
git status --short | head
