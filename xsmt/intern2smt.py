"""X-smt for the identifier interner: reads the regex literal and the few lines around it from
src/util/special_prefix_interner.rs and the CNAME rule from src/xray.pest, and builds QF_SLIA queries.
Handles exactly the regex constructs present (^, $, literals, one capture group, |, [a-b] classes, *, +)."""
import re


class Unsupported(Exception):
    pass


def smt_str(s):
    return '"%s"' % s.replace('"', '""')


def regex_to_smt(rx):
    """returns (anchored_start, anchored_end, [parts]) where parts is a list of ('lit', text) / ('group', regl) in order;
    exactly one capture group is supported"""
    a0 = rx.startswith("^")
    a1 = rx.endswith("$")
    body = rx[1 if a0 else 0: len(rx) - (1 if a1 else 0)]
    m = re.fullmatch(r"([A-Za-z_0-9]*)\((.*)\)([A-Za-z_0-9]*)", body)
    if not m:
        raise Unsupported("regex shape %r" % rx)
    pre, grp, post = m.groups()
    return a0, a1, pre, alt_to_smt(grp), post, grp


def atom_to_smt(a):
    if re.fullmatch(r"\[(.)-(.)\]", a):
        x, y = re.fullmatch(r"\[(.)-(.)\]", a).groups()
        return '(re.range "%s" "%s")' % (x, y)
    if re.fullmatch(r"[A-Za-z_0-9]", a):
        return "(str.to_re %s)" % smt_str(a)
    raise Unsupported("regex atom %r" % a)


def seq_to_smt(s):
    toks = re.findall(r"\[.-.\][*+]?|[A-Za-z_0-9][*+]?", s)
    if "".join(toks) != s:
        raise Unsupported("regex sequence %r" % s)
    parts = []
    for t in toks:
        q = t[-1] if t[-1] in "*+" else ""
        a = atom_to_smt(t[:-1] if q else t)
        parts.append("(re.* %s)" % a if q == "*" else "(re.+ %s)" % a if q == "+" else a)
    if not parts:
        return '(str.to_re "")'
    return parts[0] if len(parts) == 1 else "(re.++ %s)" % " ".join(parts)


def alt_to_smt(g):
    alts = g.split("|")
    smt = [seq_to_smt(a) for a in alts]
    return smt[0] if len(smt) == 1 else "(re.union %s)" % " ".join(smt)


def read_model(repo):
    src = open(repo + "/src/util/special_prefix_interner.rs").read()
    m = re.search(r'Regex::new\("([^"]*)"\)', src)
    if not m:
        raise Unsupported("regex literal not found")
    rx = m.group(1)
    # the body of `intern`: how the digits become an index
    unwrap = bool(re.search(r"\.parse\(\)\s*\.unwrap\(\)", src))
    cap = None
    mc = re.search(r"const (\w+): usize = (\d+)\s*<<\s*(\d+);", src)
    if mc and re.search(r"\*?idx\s*<=?\s*%s" % mc.group(1), src):
        cap = int(mc.group(2)) << int(mc.group(3))
        if re.search(r"idx\s*<\s*%s" % mc.group(1), src):
            cap -= 1
    pest = open(repo + "/src/xray.pest").read()
    mp = re.search(r"CNAME\s*=\s*@\{(.*?)\}", pest)
    if not mp or mp.group(1).replace(" ", "") != '("_"|ASCII_ALPHA)~("_"|ASCII_ALPHANUMERIC)*':
        raise Unsupported("CNAME rule has an unexpected shape: %r" % (mp.group(1) if mp else None))
    return dict(regex=rx, unwrap=unwrap, cap=cap)


CNAME = ('(re.++ (re.union (str.to_re "_") (re.range "a" "z") (re.range "A" "Z")) '
         '(re.* (re.union (str.to_re "_") (re.range "a" "z") (re.range "A" "Z") (re.range "0" "9"))))')


def special(model, s, tag):
    """constraints saying `s` is special with index idx_<tag>; returns (decls, asserts, idx term)"""
    a0, a1, pre, grp, post, raw = regex_to_smt(model["regex"])
    d, l, r = "d_%s" % tag, "l_%s" % tag, "r_%s" % tag
    decls = ["(declare-const %s String)" % v for v in (d, l, r)]
    asserts = ["(= %s (str.++ %s %s %s %s %s))" % (s, l, smt_str(pre), d, smt_str(post), r),
               "(str.in_re %s %s)" % (d, grp)]
    if a0:
        asserts.append('(= %s "")' % l)
    if a1:
        asserts.append('(= %s "")' % r)
    elif re.search(r"\[0-9\][*+]\)?$", raw) or raw.endswith("[0-9]+") or raw.endswith("[0-9]*"):
        # greedy digit run: the rest does not start with a digit
        asserts.append('(not (str.in_re %s (re.++ (re.range "0" "9") re.all)))' % r)
    if not a0:
        raise Unsupported("unanchored start")
    return decls, asserts, "(str.to_int %s)" % d


def query_injective(model, maxlen=14):
    """exists two distinct CNAMEs that intern to the same special symbol"""
    lines = ["(set-logic QF_SLIA)", "(declare-const s1 String)", "(declare-const s2 String)"]
    d1, a1, i1 = special(model, "s1", "1")
    d2, a2, i2 = special(model, "s2", "2")
    lines += d1 + d2
    for a in a1 + a2:
        lines.append("(assert %s)" % a)
    lines += ["(assert (str.in_re s1 %s))" % CNAME, "(assert (str.in_re s2 %s))" % CNAME,
              "(assert (= %s %s))" % (i1, i2), "(assert (not (= s1 s2)))",
              "(assert (<= (str.len s1) %d))" % maxlen, "(assert (<= (str.len s2) %d))" % maxlen]
    if model["cap"] is not None:
        lines.append("(assert (<= %s %d))" % (i1, model["cap"]))
    lines += ["(check-sat)", "(get-value (s1 s2))"]
    return "\n".join(lines) + "\n"


def query_total(model, maxlen=40):
    """exists a CNAME on which `intern` misbehaves: the digit group does not fit usize and the parse is unwrapped,
    or the index is accepted although it exceeds any sane table size (> 2^32)"""
    lines = ["(set-logic QF_SLIA)", "(declare-const s1 String)"]
    d1, a1, i1 = special(model, "s1", "1")
    lines += d1
    for a in a1:
        lines.append("(assert %s)" % a)
    lines += ["(assert (str.in_re s1 %s))" % CNAME, "(assert (<= (str.len s1) %d))" % maxlen]
    bad = []
    if model["unwrap"]:
        bad.append("(> %s 18446744073709551615)" % i1)
    if model["cap"] is None:
        bad.append("(> %s 4294967296)" % i1)
    else:
        bad.append("(and (> %s 4294967296) (<= %s %d))" % (i1, i1, model["cap"]))
    lines.append("(assert (or %s))" % " ".join(bad))
    lines += ["(check-sat)", "(get-value (s1))"]
    return "\n".join(lines) + "\n"
