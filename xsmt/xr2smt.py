"""X-smt: translate xray-language prelude functions (text read from /repo/src/builtin/include.rs on every run)
into SMT-LIB2 (QF_LIA / QF_NIA) by symbolic evaluation of their source.

Supported fragment (anything else raises Unsupported -> the check exits 2):
  fn name(params)->T { [fn helper..] let x = e; ... e }       struct S(f: T, ..)
  integer / float literals, + - * unary -, comparisons, && ||, if(c, a, b),
  trunc(a / b), floor(a / b), (a / b).floor(), a % b, div_floor(a, b), div_ceil(a, b),
  struct construction S(..), member access x::f, method call sugar a.f(b) == f(a, b),
  calls to other prelude functions (inlined), bounded self-recursion.
Integer division is encoded with explicit quotient/remainder variables (division lemma), never with div/mod:
the direct encodings time out on the unsat side in z3 and cvc5 (DESIGN.md 6).
Floats are modelled as integers: only integral-valued floats are in scope (stated in the evidence)."""
import re


class Unsupported(Exception):
    pass


# ------------------------------------------------------------------------------------------------ lexer / parser
TOK = re.compile(r"\s*(?:(//[^\n]*\n|/\*.*?\*/)|(\d[\d_]*\.\d+|\d[\d_]*)|([A-Za-z_][A-Za-z_0-9]*)|(->|::|==|!=|<=|>=|&&|\|\||\?=|\*\*|[-+*/%(){}\[\],;:<>=.!?$&|^])|(\"(?:[^\"\\]|\\.)*\"|'(?:[^'\\]|\\.)*'))", re.S)


def lex(src):
    out = []
    i = 0
    while i < len(src):
        m = TOK.match(src, i)
        if not m:
            if src[i:].strip() == "":
                break
            raise Unsupported("cannot tokenise at %r" % src[i:i + 30])
        i = m.end()
        if m.group(1):
            continue
        if m.group(2):
            out.append(("num", m.group(2)))
        elif m.group(3):
            out.append(("id", m.group(3)))
        elif m.group(4):
            out.append(("op", m.group(4)))
        else:
            out.append(("str", m.group(5)))
    return out


def extract_include(path):
    txt = open(path).read()
    m = re.search(r'r#+"(.*)"#+', txt, re.S)
    if not m:
        m = re.search(r'"(.*)"', txt, re.S)
    if not m:
        raise Unsupported("INCLUDE literal not found")
    return m.group(1)


def split_items(src):
    """top level: returns {name: [fn item text]} and {struct name: [fields]} by brace matching on the raw text"""
    fns = {}
    structs = {}
    for m in re.finditer(r"(?m)^struct\s+(\w+)\s*\(([^)]*)\)", src):
        structs[m.group(1)] = [f.split(":")[0].strip() for f in m.group(2).split(",") if f.strip()]
    for m in re.finditer(r"(?m)^fn\s+(\w+)", src):
        j = src.index("{", m.end())
        # parameters may contain braces? no
        depth = 1
        k = j + 1
        while depth:
            c = src[k]
            depth += c == "{"
            depth -= c == "}"
            k += 1
        fns.setdefault(m.group(1), []).append(src[m.start():k])
    return fns, structs


class P:
    def __init__(self, toks):
        self.t = toks
        self.i = 0

    def peek(self, k=0):
        return self.t[self.i + k] if self.i + k < len(self.t) else ("eof", "")

    def eat(self, val=None, kind=None):
        tk = self.peek()
        if (val is not None and tk[1] != val) or (kind is not None and tk[0] != kind):
            raise Unsupported("expected %r got %r at token %d" % (val or kind, tk, self.i))
        self.i += 1
        return tk

    def at(self, val):
        return self.peek()[1] == val and self.peek()[0] in ("op", "id")

    def parse_type(self):
        # skip a type: balanced over <> () and ->
        depth = 0
        while True:
            k, v = self.peek()
            if k == "eof":
                return
            if v in ("(", "<"):
                depth += 1
            elif v in (")", ">"):
                if depth == 0:
                    return
                depth -= 1
            elif v in (",", "{", "?=", "=") and depth == 0:
                return
            self.i += 1

    def parse_fn(self):
        self.eat("fn")
        name = self.eat(kind="id")[1]
        if self.at("<"):
            raise Unsupported("generic fn")
        self.eat("(")
        params = []
        while not self.at(")"):
            pn = self.eat(kind="id")[1]
            self.eat(":")
            t0 = self.i
            self.parse_type()
            ty = "".join(v for _, v in self.t[t0:self.i])
            default = None
            if self.at("?="):
                self.eat("?=")
                default = self.parse_expr()
            params.append((pn, ty, default))
            if self.at(","):
                self.eat(",")
        self.eat(")")
        self.eat("->")
        t0 = self.i
        self.parse_type()
        ret = "".join(v for _, v in self.t[t0:self.i])
        body = self.parse_body()
        return dict(name=name, params=params, ret=ret, body=body)

    def parse_body(self):
        self.eat("{")
        stmts = []
        while True:
            if self.at("fn"):
                stmts.append(("fn", self.parse_fn()))
            elif self.at("let"):
                self.eat("let")
                n = self.eat(kind="id")[1]
                if self.at(":"):
                    self.eat(":")
                    self.parse_type()
                self.eat("=")
                e = self.parse_expr()
                self.eat(";")
                stmts.append(("let", n, e))
            else:
                break
        e = self.parse_expr()
        self.eat("}")
        return (stmts, e)

    # precedence climbing (xray.pest / parser.rs PrecClimber order, lowest first)
    LEVELS = [["&&", "||"], ["<", ">", "==", "!=", "<=", ">="], ["|", "&", "^"], ["+", "-"], ["*", "/", "%"], ["**"]]

    def parse_expr(self, lvl=0):
        if lvl == len(self.LEVELS):
            return self.parse_unary()
        lhs = self.parse_expr(lvl + 1)
        while self.peek()[0] == "op" and self.peek()[1] in self.LEVELS[lvl]:
            op = self.eat()[1]
            rhs = self.parse_expr(lvl + 1)
            lhs = ("bin", op, lhs, rhs)
        return lhs

    def parse_unary(self):
        if self.at("-"):
            self.eat("-")
            return ("neg", self.parse_unary())
        if self.at("+"):
            self.eat("+")
            return self.parse_unary()
        if self.at("!"):
            self.eat("!")
            return ("not", self.parse_unary())
        return self.parse_postfix()

    def parse_args(self):
        self.eat("(")
        args = []
        while not self.at(")"):
            args.append(self.parse_expr())
            if self.at(","):
                self.eat(",")
        self.eat(")")
        return args

    def parse_postfix(self):
        e = self.parse_atom()
        while True:
            if self.at("."):
                self.eat(".")
                n = self.eat(kind="id")[1]
                args = self.parse_args()
                e = ("call", n, [e] + args)
            elif self.at("::"):
                self.eat("::")
                n = self.eat(kind="id")[1]
                e = ("member", e, n)
            elif self.at("(") and e[0] == "var":
                e = ("call", e[1], self.parse_args())
            else:
                return e

    def parse_atom(self):
        k, v = self.peek()
        if k == "num":
            self.i += 1
            v = v.replace("_", "")
            if "." in v:
                f = float(v)
                if f != int(f):
                    raise Unsupported("non-integral float literal %s" % v)
                return ("num", int(f), "float")
            return ("num", int(v), "int")
        if k == "id":
            self.i += 1
            if v in ("true", "false"):
                return ("bool", v == "true")
            return ("var", v)
        if v == "(":
            self.eat("(")
            e = self.parse_expr()
            self.eat(")")
            return e
        raise Unsupported("atom %r" % (self.peek(),))


# ------------------------------------------------------------------------------------------------ symbolic evaluation
class Enc:
    """accumulates declarations and side constraints; values are SMT terms (str), python ints, bools (SMT terms) or dicts (structs)"""

    def __init__(self, fns, structs, rec_bound=40, mod_semantics="floored"):
        self.fns = fns
        self.structs = structs
        self.decls = []
        self.asserts = []
        self.n = 0
        self.rec_bound = rec_bound
        self.bound_hit = []  # conditions under which the recursion bound is exceeded
        self.mod_semantics = mod_semantics
        self.nonlinear = False
        self.used = set()
        self._parsed = {}
        self._divcache = {}

    def fresh(self, p):
        self.n += 1
        v = "%s_%d" % (p, self.n)
        self.decls.append("(declare-const %s Int)" % v)
        return v

    @staticmethod
    def t(x):
        if isinstance(x, bool):
            return "true" if x else "false"
        if isinstance(x, int):
            return str(x) if x >= 0 else "(- %d)" % -x
        return x

    def is_const(self, x):
        return isinstance(x, int) and not isinstance(x, bool)

    def divmod(self, a, b, kind, pathcond):
        """kind: trunc | floor ; returns (q, r) with a = b*q + r.  Constraints hold under pathcond (guarded)."""
        if self.is_const(a) and self.is_const(b) and b != 0:
            if kind == "floor":
                return a // b, a % b
            q = abs(a) // abs(b)
            q = q if (a < 0) == (b < 0) else -q
            return q, a - q * b
        A, B = self.t(a), self.t(b)
        if kind == "floor":
            # one truncated division per (a, b); the floored pair is derived from it, so `a % b` and trunc(a / b)
            # of the same operands share their quotient/remainder variables
            qt, rt = self.divmod(a, b, "trunc", pathcond)
            adj = "(and (not (= %s 0)) (not (= (< %s 0) (< %s 0))))" % (rt, rt, B)
            return "(ite %s (- %s 1) %s)" % (adj, qt, qt), "(ite %s (+ %s %s) %s)" % (adj, rt, B, rt)
        key = (A, B, pathcond)
        if key in self._divcache:
            return self._divcache[key]
        q = self.fresh("q")
        r = self.fresh("r")
        self._divcache[key] = (q, r)
        if not self.is_const(b):
            self.nonlinear = True
        if self.is_const(b) and b == 0:
            raise Unsupported("division by the constant 0")
        if self.is_const(b) and b != 0:
            c = abs(b)
            sg = 1 if b > 0 else -1
            cons = ["(= %s (+ (* %d %s) %s))" % (A, b, q, r), "(< %s %d)" % (r, c), "(> %s %d)" % (r, -c) if True else ""]
            cons[2] = "(> %s (- %d))" % (r, c)
            if kind == "trunc":
                cons.append("(=> (>= %s 0) (>= %s 0))" % (A, r))
                cons.append("(=> (<= %s 0) (<= %s 0))" % (A, r))
            else:
                cons.append("(>= %s 0)" % r if sg > 0 else "(<= %s 0)" % r)
            if pathcond == "true":
                self.asserts.extend(cons)
            else:
                self.asserts.append("(=> %s (and %s))" % (pathcond, " ".join(cons)))
            return q, r
        cons = ["(= %s (+ (* %s %s) %s))" % (A, B, q, r)]
        absb = "(ite (>= %s 0) %s (- %s))" % (B, B, B)
        cons.append("(< (ite (>= %s 0) %s (- %s)) %s)" % (r, r, r, absb))
        if kind == "trunc":
            cons.append("(=> (>= %s 0) (>= %s 0))" % (A, r))
            cons.append("(=> (<= %s 0) (<= %s 0))" % (A, r))
        else:
            cons.append("(=> (> %s 0) (>= %s 0))" % (B, r))
            cons.append("(=> (< %s 0) (<= %s 0))" % (B, r))
        body = "(and %s)" % " ".join(cons)
        nz = "(not (= %s 0))" % B
        self.asserts.append("(=> (and %s %s) %s)" % (pathcond, nz, body))
        return q, r

    def parsed(self, name, nargs, argkinds=None):
        cands = self.fns.get(name, [])
        out = []
        for txt in cands:
            key = (name, txt)
            if key not in self._parsed:
                try:
                    self._parsed[key] = P(lex(txt)).parse_fn()
                except Unsupported as e:
                    self._parsed[key] = e
            f = self._parsed[key]
            if isinstance(f, Unsupported):
                continue
            if len(f["params"]) == nargs:
                out.append(f)
        return out

    def call(self, name, args, env, pc, depth, local_fns):
        # builtin arithmetic helpers
        if name == "if" and len(args) == 3:
            c = self.ev(args[0], env, pc, depth, local_fns)
            if c is True:
                return self.ev(args[1], env, pc, depth, local_fns)
            if c is False:
                return self.ev(args[2], env, pc, depth, local_fns)
            a = self.ev(args[1], env, "(and %s %s)" % (pc, c), depth, local_fns)
            b = self.ev(args[2], env, "(and %s (not %s))" % (pc, c), depth, local_fns)
            return self.ite(c, a, b)
        if name in ("trunc", "floor") and len(args) == 1 and args[0][0] == "bin" and args[0][1] == "/":
            num, den = args[0][2], args[0][3]
            b = self.ev(den, env, pc, depth, local_fns)
            # (a / b) / c under trunc/floor: real division composes, trunc((a/b)/c) = trunc(a / (b*c))
            while num[0] == "bin" and num[1] == "/":
                b2 = self.ev(num[3], env, pc, depth, local_fns)
                b = self.binop("*", b2, b, pc)
                num = num[2]
            a = self.ev(num, env, pc, depth, local_fns)
            return self.divmod(a, b, name, pc)[0]
        if name in ("div_floor",) and len(args) == 2:
            a = self.ev(args[0], env, pc, depth, local_fns)
            b = self.ev(args[1], env, pc, depth, local_fns)
            return self.divmod(a, b, "floor", pc)[0]
        if name == "div_ceil" and len(args) == 2:
            a = self.ev(args[0], env, pc, depth, local_fns)
            b = self.ev(args[1], env, pc, depth, local_fns)
            q, r = self.divmod(a, b, "floor", pc)
            if self.is_const(r):
                return q if r == 0 else q + 1
            return "(ite (= %s 0) %s (+ %s 1))" % (r, self.t(q), self.t(q))
        if name in ("floor", "trunc", "to_float", "to_int") and len(args) == 1:
            # on an already integral value (floats are modelled as integers)
            return self.ev(args[0], env, pc, depth, local_fns)
        vals = [self.ev(a, env, pc, depth, local_fns) for a in args]
        if name in self.structs and len(vals) == len(self.structs[name]):
            return dict(zip(self.structs[name], vals), __struct=name)
        # local helper fns first, then prelude
        cands = [f for f in local_fns if f["name"] == name and len(f["params"]) == len(vals)]
        if not cands:
            cands = self.parsed(name, len(vals))
            cands = [f for f in cands if self.sig_matches(f, vals)]
        if name in ("mod", "add", "sub", "mul", "neg", "eq", "ne", "lt", "le", "gt", "ge") and all(not isinstance(v, dict) for v in vals):
            op = {"mod": "%", "add": "+", "sub": "-", "mul": "*", "eq": "==", "ne": "!=", "lt": "<", "le": "<=", "gt": ">", "ge": ">="}.get(name)
            if name == "neg":
                return self.neg(vals[0])
            return self.binop(op, vals[0], vals[1], pc)
        if len(cands) > 1:
            # scalars are modelled as integers: prefer the overload whose scalar parameters are all `int`
            ints = [f for f in cands if all(ty == "int" or ty in self.structs for _, ty, _ in f["params"])]
            if len(ints) == 1:
                cands = ints
        if len(cands) != 1:
            raise Unsupported("call %s/%d: %d candidate definitions" % (name, len(vals), len(cands)))
        f = cands[0]
        if depth >= self.rec_bound:
            self.bound_hit.append(pc)
            return self.fresh("cut")
        self.used.add(name)
        env2 = {pn: v for (pn, _, _), v in zip(f["params"], vals)}
        return self.ev_body(f["body"], env2, pc, depth + 1, local_fns)

    def sig_matches(self, f, vals):
        for (pn, ty, _), v in zip(f["params"], vals):
            if isinstance(v, dict):
                if ty != v.get("__struct"):
                    return False
            else:
                if ty not in ("int", "float"):
                    return False
        return True

    def ite(self, c, a, b):
        if isinstance(a, dict) or isinstance(b, dict):
            if not (isinstance(a, dict) and isinstance(b, dict)):
                raise Unsupported("ite of struct and scalar")
            return {k: (a[k] if k == "__struct" else self.ite(c, a[k], b[k])) for k in a}
        if self.t(a) == self.t(b):
            return a
        return "(ite %s %s %s)" % (c, self.t(a), self.t(b))

    def neg(self, a):
        if self.is_const(a):
            return -a
        return "(- %s)" % a

    def binop(self, op, a, b, pc):
        if isinstance(a, dict) or isinstance(b, dict):
            raise Unsupported("operator %s on structs" % op)
        ca, cb = self.is_const(a), self.is_const(b)
        A, B = self.t(a), self.t(b)
        if op in ("+", "-"):
            if ca and cb:
                return a + b if op == "+" else a - b
            return "(%s %s %s)" % (op, A, B)
        if op == "*":
            if ca and cb:
                return a * b
            if not ca and not cb:
                self.nonlinear = True
            return "(* %s %s)" % (A, B)
        if op == "%":
            kind = "floor" if self.mod_semantics == "floored" else "trunc"
            return self.divmod(a, b, kind, pc)[1]
        if op in ("==", "!=", "<", ">", "<=", ">="):
            if ca and cb:
                return {"==": a == b, "!=": a != b, "<": a < b, ">": a > b, "<=": a <= b, ">=": a >= b}[op]
            if op == "==":
                return "(= %s %s)" % (A, B)
            if op == "!=":
                return "(not (= %s %s))" % (A, B)
            return "(%s %s %s)" % (op, A, B)
        if op in ("&&", "||"):
            return "(%s %s %s)" % ("and" if op == "&&" else "or", A, B)
        raise Unsupported("operator %s" % op)

    def ev_body(self, body, env, pc, depth, local_fns):
        stmts, e = body
        env = dict(env)
        local_fns = list(local_fns)
        for s in stmts:
            if s[0] == "fn":
                local_fns = [s[1]] + local_fns
            else:
                env[s[1]] = self.ev(s[2], env, pc, depth, local_fns)
        return self.ev(e, env, pc, depth, local_fns)

    def ev(self, e, env, pc, depth, local_fns):
        k = e[0]
        if k == "num":
            return e[1]
        if k == "bool":
            return e[1]
        if k == "var":
            if e[1] in env:
                return env[e[1]]
            if e[1] in self.globals:
                return self.globals[e[1]]
            raise Unsupported("unbound name %s" % e[1])
        if k == "neg":
            return self.neg(self.ev(e[1], env, pc, depth, local_fns))
        if k == "not":
            v = self.ev(e[1], env, pc, depth, local_fns)
            return (not v) if isinstance(v, bool) else "(not %s)" % v
        if k == "member":
            o = self.ev(e[1], env, pc, depth, local_fns)
            if not isinstance(o, dict) or e[2] not in o:
                raise Unsupported("member %s" % e[2])
            return o[e[2]]
        if k == "bin":
            if e[1] == "/":
                raise Unsupported("bare `/` (true division) outside trunc()/floor()")
            a = self.ev(e[2], env, pc, depth, local_fns)
            b = self.ev(e[3], env, pc, depth, local_fns)
            return self.binop(e[1], a, b, pc)
        if k == "call":
            # (a / b).floor()  is  call floor [bin / a b]
            return self.call(e[1], e[2], env, pc, depth, local_fns)
        raise Unsupported("expression kind %s" % k)

    globals = {}


OPS = {"AND": "&&", "OR": "||", "LT": "<", "GT": ">", "EQ": "==", "NE": "!=", "LE": "<=", "GE": ">=", "BIT_OR": "|", "BIT_AND": "&",
       "BIT_XOR": "^", "ADD": "+", "SUB": "-", "MUL": "*", "DIV": "/", "MOD": "%", "POW": "**"}


def load_precedence(repo):
    """operator precedence levels are read from the PrecClimber table in parser.rs (lowest first)"""
    txt = open(repo + "/src/parser.rs").read()
    m = re.search(r"PrecClimber::new\(vec!\[(.*?)\]\)", txt, re.S)
    if not m:
        raise Unsupported("PrecClimber table not found in parser.rs")
    body = m.group(1)
    levels, depth, cur = [], 0, ""
    for ch in body:
        if ch == "(":
            depth += 1
        if ch == ")":
            depth -= 1
        if ch == "," and depth == 0:
            levels.append(cur)
            cur = ""
        else:
            cur += ch
    if cur.strip():
        levels.append(cur)
    out = []
    for lv in levels:
        names = re.findall(r"Rule::BINARY_(\w+)", lv)
        if names:
            out.append([OPS[n] for n in names])
    return out


def load(repo):
    P.LEVELS = load_precedence(repo)
    src = extract_include(repo + "/src/builtin/include.rs")
    fns, structs = split_items(src)
    return src, fns, structs
